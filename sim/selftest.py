"""./check selftest determinism|sensitivity  (DESIGN 3.8) - not part of the verdict.

determinism : the same run seeds executed in pools of different size and under different
              PYTHONHASHSEEDs in fresh interpreters must yield identical event logs.
sensitivity : every patch under selftest/mutants/ and seeded/*/patch.diff is applied to a
              scratch copy of the repository (under /tmp, removed afterwards); the check
              must report a violation within the quick (or, failing that, a bounded
              thorough) budget, and the replay must reproduce on the scratch copy and
              not on the unchanged tree.
"""

import argparse
import glob
import json
import os
import shutil
import subprocess
import sys
import tempfile
import time

HERE = os.path.dirname(os.path.abspath(__file__))
VERIF = os.path.dirname(HERE)
sys.path.insert(0, VERIF)

from sim.pool import Pool  # noqa: E402
from sim.runner import TIERS, seeds_for  # noqa: E402

PY = os.environ.get("VERIF_PYTHON", "/venv/bin/python")


def determinism(args):
    n = args.n
    seeds = seeds_for(args.seed, "thorough", n)
    cfg = TIERS["thorough"]["cfg"]
    groups = {"P": (2, 1001), "Q": (max(2, (os.cpu_count() or 4) - 5), 3001), "R": (3, 5001)}
    pool = Pool(args.repo, groups)
    t0 = time.time()
    try:
        futs = {g: [pool.submit({"t": "run", "seed": s, "cfg": cfg}, g) for s in seeds] for g in groups}
        res = {g: [f.result() for f in fs] for g, fs in futs.items()}
    finally:
        pool.close()
    bad = []
    herr = 0
    for i, s in enumerate(seeds):
        rows = [res[g][i] for g in sorted(groups)]
        if any(r.get("status") == "harness_error" for r in rows):
            herr += 1
            continue
        digs = {(r["ops_digest"], r["log_digest"]) for r in rows}
        if len(digs) != 1:
            kind = "ops" if len({r["ops_digest"] for r in rows}) != 1 else "values"
            bad.append({"seed": s, "kind": kind, "hashseeds": [r.get("hashseed") for r in rows]})
    out = {
        "seeds": n, "executions": 3 * n, "pools": {g: {"workers": w, "hashseed_base": b} for g, (w, b) in groups.items()},
        "divergent": bad[:20], "n_divergent": len(bad), "harness_errors": herr, "wall_s": round(time.time() - t0, 1),
    }
    os.makedirs(os.path.join(VERIF, "selftest"), exist_ok=True)
    with open(os.path.join(VERIF, "selftest", "DETERMINISM.json"), "w") as f:
        json.dump(out, f, indent=1)
    print(json.dumps({k: v for k, v in out.items() if k != "divergent"}))
    for b in bad[:10]:
        print("DIVERGENT", b)
    return 0 if not bad and not herr else 1


def _scratch_copy(repo):
    d = tempfile.mkdtemp(prefix="c18-selftest-")
    subprocess.check_call(["rsync", "-a", "--exclude", ".git", "--exclude", "__pycache__", "--exclude", "docs",
                           repo.rstrip("/") + "/", d + "/"])
    site = os.path.join(d, ".site")
    os.makedirs(site)
    with open(os.path.join(site, "sitecustomize.py"), "w") as f:
        f.write("import os\nimport cr\ncr.__path__ = [os.path.join(%r, 'src', 'cr')]\n" % d)
    return d


def _pytest(d):
    env = dict(os.environ, PYTHONPATH=os.path.join(d, ".site"), PYTHONDONTWRITEBYTECODE="1")
    p = subprocess.run([PY, "-m", "pytest", "-q", "-p", "no:cacheprovider", "-n", "8", "-x", "--maxfail=3"],
                       cwd=d, env=env, capture_output=True, text=True, timeout=900)
    tail = p.stdout.strip().splitlines()[-1] if p.stdout.strip() else ""
    return tail


def _check(repo, tier, runs, seed, prefix):
    cmd = [PY, os.path.join(HERE, "runner.py"), "--tier", tier, "--repo", repo, "--seed", str(seed),
           "--evidence", os.path.join(tempfile.gettempdir(), "c18-selftest-evidence.json"), "--out-prefix", prefix]
    if runs:
        cmd += ["--runs", str(runs)]
    p = subprocess.run(cmd, capture_output=True, text=True, timeout=3600)
    replays = [ln.split("replay=", 1)[1].strip() for ln in p.stdout.splitlines() if ln.startswith("VIOLATION")]
    return p.returncode, replays, p.stdout


def _replay(repo, path):
    p = subprocess.run([PY, os.path.join(HERE, "runner.py"), "--replay", path, "--repo", repo],
                       capture_output=True, text=True, timeout=600)
    return p.returncode, p.stdout.strip().splitlines()[-1] if p.stdout.strip() else ""


def sensitivity(args):
    patches = sorted(glob.glob(os.path.join(VERIF, "selftest", "mutants", "*.diff")))
    patches += sorted(glob.glob(os.path.join(VERIF, "seeded", "*", "patch.diff")))
    if args.only:
        patches = [p for p in patches if any(o in p for o in args.only)]
    results = []
    for patch in patches:
        name = os.path.basename(os.path.dirname(patch)) if patch.endswith("patch.diff") else os.path.basename(patch)[:-5]
        rec = {"mutant": name, "patch": os.path.relpath(patch, VERIF)}
        d = _scratch_copy(args.repo)
        t0 = time.time()
        try:
            ap = subprocess.run(["git", "apply", "--unsafe-paths", "--directory", d, patch], capture_output=True, text=True, cwd="/")
            if ap.returncode != 0:
                ap = subprocess.run(["patch", "-p1", "-d", d, "-i", patch], capture_output=True, text=True)
            if ap.returncode != 0:
                rec["status"] = "patch does not apply"
                rec["detail"] = (ap.stderr or ap.stdout)[-300:]
                results.append(rec)
                continue
            if not args.skip_tests:
                rec["test_suite"] = _pytest(d)
            prefix = "tmp-selftest-%s-" % name
            rc, replays, out = _check(d, "quick", None, args.seed, prefix)
            rec["quick"] = {"exit": rc, "violations": len(replays)}
            found_by = "quick" if (rc == 1 and replays) else None
            if rc != 1 and not args.quick_only:
                rc, replays, out = _check(d, "thorough", args.thorough_runs, args.seed, prefix)
                rec["thorough_%d" % args.thorough_runs] = {"exit": rc, "violations": len(replays)}
                found_by = "thorough" if (rc == 1 and replays) else None
            rec["detected_by"] = found_by
            if replays:
                rows = []
                for rpath in replays[:6]:
                    r_mut = _replay(d, rpath)
                    r_ok = _replay(args.repo, rpath)
                    row = {"on_mutant": r_mut[0], "on_unchanged_tree": r_ok[0], "line": r_mut[1][:200]}
                    try:
                        with open(rpath) as f:
                            rp = json.load(f)
                        row["ops"] = len(rp["ops"])
                        row["class"] = rp.get("class")
                        row["stability"] = rp.get("found_by", {}).get("replay_stability")
                    except Exception:
                        pass
                    rows.append(row)
                best = next((r for r in rows if r["on_mutant"] == 1), rows[0])
                rec["replays"] = rows
                rec["replay_on_mutant"] = {"exit": best["on_mutant"], "line": best["line"],
                                           "reproducing": sum(1 for r in rows if r["on_mutant"] == 1), "of": len(rows)}
                rec["replay_on_unchanged_tree"] = {"exit": max(r["on_unchanged_tree"] for r in rows)}
                rec["minimised_ops"] = best.get("ops")
                rec["class"] = best.get("class")
            for rp in glob.glob(os.path.join(VERIF, "replays", prefix + "*")):
                os.remove(rp)
            rec["status"] = "detected" if found_by else "MISSED"
        finally:
            shutil.rmtree(d, ignore_errors=True)
        rec["wall_s"] = round(time.time() - t0, 1)
        results.append(rec)
        print(json.dumps(rec), flush=True)
    out = {"seed": args.seed, "results": results,
           "summary": {"mutants": len(results), "detected": sum(1 for r in results if r.get("status") == "detected"),
                       "by_quick": sum(1 for r in results if r.get("detected_by") == "quick"),
                       "missed": [r["mutant"] for r in results if r.get("status") == "MISSED"]}}
    name = "RESULTS.json" if not args.only else "RESULTS-partial.json"
    with open(os.path.join(VERIF, "selftest", name), "w") as f:
        json.dump(out, f, indent=1)
    if args.only and args.merge:
        # replace / add the re-tested entries in the full results file
        full_path = os.path.join(VERIF, "selftest", "RESULTS.json")
        with open(full_path) as f:
            full = json.load(f)
        by = {r["mutant"]: r for r in full["results"]}
        for r in results:
            r = dict(r, retested_after_full_run=True)
            by[r["mutant"]] = r
        full["results"] = [by[k] for k in sorted(by, key=lambda n: (not n.startswith("revert"), n))]
        full["summary"] = {"mutants": len(full["results"]),
                           "detected": sum(1 for r in full["results"] if r.get("status") == "detected"),
                           "by_quick": sum(1 for r in full["results"] if r.get("detected_by") == "quick"),
                           "missed": [r["mutant"] for r in full["results"] if r.get("status") == "MISSED"]}
        with open(full_path, "w") as f:
            json.dump(full, f, indent=1)
    print(json.dumps(out["summary"]))
    return 0 if not out["summary"]["missed"] else 1


def main():
    ap = argparse.ArgumentParser(prog="check selftest")
    ap.add_argument("what", choices=["determinism", "sensitivity"])
    ap.add_argument("--repo", default="/repo")
    ap.add_argument("--seed", type=int, default=int(os.environ.get("VERIF_SEED", "0")))
    ap.add_argument("-n", type=int, default=1500)
    ap.add_argument("--only", nargs="*")
    ap.add_argument("--skip-tests", action="store_true")
    ap.add_argument("--merge", action="store_true", help="with --only: update those entries in RESULTS.json")
    ap.add_argument("--quick-only", action="store_true")
    ap.add_argument("--thorough-runs", type=int, default=20000)
    args = ap.parse_args()
    return determinism(args) if args.what == "determinism" else sensitivity(args)


if __name__ == "__main__":
    sys.exit(main())
