"""Seeded scenario generation: who shares which argument objects (DESIGN 3.3, 3.10).

A scenario is fully materialised JSON: rebuilding it needs no PRNG. Pure Python over the
corpus index; never touches cr.cube.
"""

import json
import random

from . import model
from .transforms_gen import ARRAY, SHIMMED, gen_transforms

MASK64 = (1 << 64) - 1


def splitmix64(*xs):
    z = 0x9E3779B97F4A7C15
    for x in xs:
        z = (z + (int(x) & MASK64) + 0x9E3779B97F4A7C15) & MASK64
        z = ((z ^ (z >> 30)) * 0xBF58476D1CE4E5B9) & MASK64
        z = ((z ^ (z >> 27)) * 0x94D049BB133111EB) & MASK64
        z = z ^ (z >> 31)
    return z


TOPOLOGIES = ["T1", "T2", "T3", "T4r", "T4g", "T5num", "T5ca", "T5filter", "T5bad", "T6", "T7", "T8", "T9", "T10"]
TOPOLOGY_WEIGHTS = [10, 18, 10, 8, 12, 7, 6, 5, 4, 8, 6, 6, 5, 4]

_groups = None


def _corpus_groups():
    """Corpus names grouped for picking; sorted so that PRNG indexing is stable."""
    global _groups
    if _groups is None:
        ix = model.corpus_index()
        g = {"all": [], "shimmed": [], "plain": [], "nd3": [], "d0": [], "d1": [], "d1num": [],
             "d1plain": [], "d2": [], "ca0": [], "multinum": [], "catdate": [], "numeric": [], "mrins": [], "bysig": {}}
        for name in sorted(ix):
            m = ix[name]
            g["all"].append(name)
            types = m["dimension_types"]
            if any(t in SHIMMED for t in types):
                g["shimmed"].append(name)
            else:
                g["plain"].append(name)
            if any(e.get("derived") for d in m["dims"] for e in d["elements"]):
                g["mrins"].append(name)
            if "BINNED_NUMERIC" in types:
                g["numeric"].append(name)
            if "CAT_DATE" in types[-2:]:
                g["catdate"].append(name)
            if m["ndim"] >= 3:
                g["nd3"].append(name)
            if m["ndim"] == 0:
                g["d0"].append(name)
            if m["ndim"] == 1:
                g["d1"].append(name)
                if set(m["measures"]) & {"MEAN", "SUM", "STDDEV", "MEDIAN"}:
                    g["d1num"].append(name)
                else:
                    g["d1plain"].append(name)
            if m["ndim"] == 2:
                g["d2"].append(name)
                if types[0] == "CA_SUBVAR":
                    g["ca0"].append(name)
            nnum = len(set(m["measures"]) & {"MEAN", "SUM", "STDDEV", "MEDIAN",
                                              "UNWEIGHTED_VALID_COUNT", "WEIGHTED_VALID_COUNT"})
            if nnum >= 2:
                g["multinum"].append(name)
            g["bysig"].setdefault((m["ndim"], m["partition_class"]), []).append(name)
        _groups = g
    return _groups


def _pick_corpus(rnd, knobs, group=None):
    g = _corpus_groups()
    if group:
        pool = g[group]
    elif rnd.random() < 0.12:
        pool = g["multinum"]  # several numeric measures: whichever comes "first" matters
    elif rnd.random() < 0.08:
        pool = g["catdate"]  # the only dimensions that can actually be smoothed
    elif rnd.random() < 0.05:
        pool = g["numeric"]  # binned-numeric dimensions: labels formatted from numbers
    elif rnd.random() < 0.05:
        pool = g["mrins"]  # multiple response with derived (inserted) sub-variables
    elif rnd.random() < knobs["shim_bias"]:
        pool = g["shimmed"]
    else:
        pool = g["all"]
    return rnd.choice(pool)


def _perturbations(rnd, meta):
    """Adversarial sub-variable aliases the shim explicitly caters for (DESIGN 3.10 b)."""
    out = []
    arr = [d for d in meta["dims"] if d["type"] in ARRAY and d["raw_idx"] >= 0 and len(d["elements"]) >= 2]
    if not arr:
        return out
    d = rnd.choice(arr)
    els = d["elements"]
    i = rnd.randrange(len(els))
    j = rnd.choice([k for k in range(len(els)) if k != i])
    kind = rnd.choice(["id-of", "pos-of", "subvar-of", "noalias", "numeric"])
    if kind == "id-of":
        out.append(["alias", d["raw_idx"], i, str(els[j]["id"])])
    elif kind == "pos-of":
        out.append(["alias", d["raw_idx"], i, str(j)])
    elif kind == "subvar-of" and els[j].get("subvar_id") is not None:
        out.append(["alias", d["raw_idx"], i, str(els[j]["subvar_id"])])
    elif kind == "noalias":
        out.append(["noalias", d["raw_idx"], i])
    else:
        out.append(["alias", d["raw_idx"], i, "9999"])
    return out


def _perturbed_meta(meta, perturb):
    if not perturb:
        return meta
    m = json.loads(json.dumps(meta))
    for p in perturb:
        if p[0] in ("alias", "noalias"):
            for d in m["dims"]:
                if d["raw_idx"] == p[1]:
                    el = d["elements"][p[2]]
                    el["alias"] = p[3] if p[0] == "alias" else el["id"]
        elif p[0] == "mark_missing":
            for d in m["dims"]:
                if d["raw_idx"] == p[1] and p[2] < len(d["elements"]):
                    d["elements"][p[2]]["missing"] = True
        elif p[0] == "cat_dates":
            for k, d in enumerate(m["dims"]):
                if d["raw_idx"] == p[1]:
                    d["type"] = "CAT_DATE"
                    m["dimension_types"][k] = "CAT_DATE"
        elif p[0] == "view_insertions":
            for d in m["dims"]:
                if d["raw_idx"] == p[1]:
                    d["view_insertion_ids"] = [i.get("id") for i in p[2]]
                    d["n_view_insertions"] = len(p[2])
    return m


def _merged_meta(m0, m1):
    m = json.loads(json.dumps(m0))
    for k in range(1, min(len(m["dims"]), len(m1["dims"])) + 1):
        d0, d1 = m["dims"][-k], m1["dims"][-k]
        have = {json.dumps(e.get("id")) for e in d0["elements"]}
        d0["elements"] = d0["elements"] + [e for e in d1["elements"] if json.dumps(e.get("id")) not in have]
    return m


def _structural_perturbations(rnd, meta):
    """Input-space widening that keeps the response valid (DESIGN 7): other valid/missing
    split, numeric values, a categorical made a date series, variable-level subtotals
    (with and without ids), filter statistics."""
    out = []
    cats = [d for d in meta["dims"] if d["type"] in ("CAT",) and d["raw_idx"] >= 0 and len(d["elements"]) >= 2]
    if cats and rnd.random() < 0.5:
        d = rnd.choice(cats)
        valid_idx = [i for i, e in enumerate(d["elements"]) if not e["missing"]]
        kind = rnd.choice(["mark_missing", "numeric_values", "cat_dates", "cat_dates", "view_insertions", "view_insertions"])
        if kind == "mark_missing" and len(valid_idx) >= 3:
            out.append(["mark_missing", d["raw_idx"], rnd.choice(valid_idx)])
        elif kind == "numeric_values":
            out.append(["numeric_values", d["raw_idx"],
                        [rnd.choice([None, 1, 2, 3, 5, -1, 2.5]) for _ in d["elements"]]])
        elif kind == "cat_dates" and d is meta["dims"][-1]:
            out.append(["cat_dates", d["raw_idx"]])
        elif kind == "view_insertions" and len(valid_idx) >= 2:
            ids = [d["elements"][i]["id"] for i in valid_idx]
            ins = []
            for k in range(rnd.choice([1, 2, 3])):
                one = {"function": "subtotal", "name": "View sub %d" % (k + 1),
                       "anchor": rnd.choice(["top", "bottom", rnd.choice(ids)]),
                       "args": rnd.sample(ids, min(len(ids), rnd.choice([1, 2, 3])))}
                if rnd.random() < 0.35:
                    one["kwargs"] = {"positive": one.pop("args"), "negative": rnd.sample(ids, 1)}
                if rnd.random() < 0.5:
                    one["id"] = k + 1
                ins.append(one)
            out.append(["view_insertions", d["raw_idx"], ins])
    if rnd.random() < 0.15:
        f = rnd.choice([0, 50, 100])
        out.append(["filter_stats", f, rnd.choice([0, 100, 200])])
    multi = meta["n_partitions"] > 1 or (meta["ndim"] == 2 and meta["dimension_types"][0] == "CA_SUBVAR")
    if multi and rnd.random() < 0.5:
        # two tables of one stack with the same title (two sub-variables / categories that
        # carry the same label)
        d = meta["dims"][0]
        valid = [k for k, e in enumerate(d["elements"]) if not e["missing"]]
        if d["raw_idx"] >= 0 and len(valid) >= 2:
            i, j = rnd.sample(valid[:12], 2) if len(valid[:12]) >= 2 else (valid[0], valid[1])
            out.append(["duplabel", d["raw_idx"], i, j])
    dts = [d for d in meta["dims"] if d["type"] == "DATETIME" and d["raw_idx"] >= 0]
    if dts and rnd.random() < 0.5:
        out.append(["resolution", rnd.choice(dts)["raw_idx"], rnd.choice(["2M", "6M", "3M", "Q", "2W", "15m", "2Y", "10s"])])
    if dts and rnd.random() < 0.4:
        d = rnd.choice(dts)
        if d["elements"]:
            out.append(["bad_datetime", d["raw_idx"], rnd.randrange(len(d["elements"]))])
    nums = [m for m in ("mean", "sum", "stddev", "median") if m.upper() in meta["measures"]]
    if nums and rnd.random() < 0.25:
        out.append(["infinity", rnd.choice(nums), rnd.randrange(64), rnd.choice([1, -1])])
    if rnd.random() < 0.2:
        # `type.order`: the data along this dimension is in the listed order (honoured since
        # 3.0.33); any permutation of the ids is a valid (other) table
        cands = [d for d in meta["dims"] if d["raw_idx"] >= 0 and 2 <= len(d["elements"]) <= 12
                 and len({json.dumps(e["id"]) for e in d["elements"]}) == len(d["elements"])]
        if cands:
            d = rnd.choice(cands)
            ids = [e["id"] for e in d["elements"]]
            perm = list(ids)
            rnd.shuffle(perm)
            if rnd.random() < 0.4:
                perm = ids[::-1]
            out.append(["typedef_order", d["raw_idx"], perm])
    return out


def _response_arg(rnd, knobs, name, allow_perturb=True):
    ix = model.corpus_index()
    ad = {"kind": "response", "corpus": name, "form": "asis"}
    if allow_perturb and rnd.random() < knobs["perturb_rate"]:
        p = _perturbations(rnd, ix[name])
        if p:
            ad["perturb"] = p
    if allow_perturb and rnd.random() < knobs.get("struct_rate", 0.0):
        p = _structural_perturbations(rnd, _perturbed_meta(ix[name], ad.get("perturb")))
        if p:
            ad["perturb"] = list(ad.get("perturb", [])) + p
    return ad


def _meta_for(ad):
    ix = model.corpus_index()
    return _perturbed_meta(ix[ad["corpus"]], ad.get("perturb"))


def _transforms_arg(rnd, knobs, meta, force_strand=False):
    t = gen_transforms(rnd, meta, rich=knobs["rich"], stale_rate=knobs["stale_rate"], force_strand=force_strand)
    return {"kind": "transforms", "json": json.dumps(t, separators=(",", ":"))}


def _scalars(rnd):
    return {
        "population": rnd.choice([None, 0, 1000, 1000, 9001.5, 100000]),
        "min_base": rnd.choice([0, 0, 10, 30, 100]),
    }


def _cube_spec(rnd, r, t, scal, ca0=False):
    s = {"type": "cube", "response": r, "transforms": t}
    s.update(scal)
    if s["population"] is None and rnd.random() < 0.5:
        del s["population"]
    if ca0:
        s["cube_idx"] = 0
    return s


def generate(run_seed, tier_cfg):
    rnd = random.Random(splitmix64(run_seed, 0x5CE7A210))
    ix = model.corpus_index()
    g = _corpus_groups()
    knobs = {
        "warnings": rnd.choice(["default", "ignore", "ignore", "error", "always"]),
        "burst": rnd.choice([0.0, 0.3, 0.6, 0.85]),
        "max_steps": rnd.choice(tier_cfg["steps"]),
        "rich": rnd.choice([0.2, 0.5, 0.8, 1.0]),
        "stale_rate": rnd.choice([0.0, 0.1, 0.2, 0.35]),
        "shim_bias": 0.65,
        "perturb_rate": rnd.choice([0.0, 0.15, 0.4]),
        "repeat_rate": rnd.choice([0.05, 0.15, 0.3]),
        "call_rate": rnd.choice([0.03, 0.08, 0.15]),
        "expand_rate": rnd.choice([0.1, 0.25]),
        "struct_rate": rnd.choice([0.0, 0.25, 0.5]),
    }
    # sweep runs read (nearly) every property of one or two partitions in a random
    # order: every ordered pair of reads on one object is covered in one of its two orders
    knobs["mode"] = "sweep" if rnd.random() < tier_cfg.get("sweep_share", 0.15) else "mixed"
    if knobs["mode"] == "sweep":
        knobs["max_steps"] = rnd.choice(tier_cfg.get("sweep_steps", [150, 220]))
    fault_free = rnd.random() < tier_cfg.get("fault_free_share", 0.25)
    all_faults = ["F1", "F2", "F3", "F4", "F5", "F6", "F7", "F8"]
    knobs["ambient_rate"] = rnd.choice([0.02, 0.05, 0.12])
    if fault_free:
        faults = []
        knobs["warnings"] = "ignore"
        knobs["stale_rate"] = 0.0
    else:
        faults = sorted(f for f in all_faults if rnd.random() < 0.6) or ["F2"]
        if "F5" not in faults and knobs["warnings"] == "error":
            knobs["warnings"] = "default"
        if "F5" in faults and rnd.random() < 0.6:
            knobs["warnings"] = "error"
    knobs["faults"] = faults
    topo = rnd.choices(TOPOLOGIES, TOPOLOGY_WEIGHTS)[0]
    if topo == "T5bad" and "F4" not in faults:
        topo = "T5num"
    knobs["topology"] = topo

    args, specs = {}, {}
    scal = _scalars(rnd)

    if topo in ("T1", "T2") and rnd.random() < 0.03:
        # a table far larger than any fixture (>= 4096 cells per slice), plain payload order
        big = {"n": rnd.choice([64, 72]), "m": 64, "k": rnd.choice([0, 0, 2]),
               "weighted": rnd.random() < 0.5, "seed": rnd.randrange(1000)}
        args["r0"] = {"kind": "response", "synthetic": ["big_cat_x_cat", big], "form": "asis"}
        args["t0"] = {"kind": "transforms", "json": "{}"}
        specs["s0"] = _cube_spec(rnd, "r0", "t0", scal)
        if rnd.random() < 0.5:
            args["r1"] = {"kind": "response", "synthetic": ["big_cat_x_cat", dict(big, seed=big["seed"] + 1, k=0)], "form": "asis"}
            specs["s1"] = {"type": "cubeset", "members": [["r0", "t0"], ["r1", "t0"]], **scal}
        knobs["max_steps"] = min(knobs["max_steps"], 24)
        knobs["mode"] = "mixed"
    elif topo in ("T1", "T2", "T7"):
        name = _pick_corpus(rnd, knobs, "nd3" if (topo == "T1" and rnd.random() < 0.5) else None)
        args["r0"] = _response_arg(rnd, knobs, name)
        meta = _meta_for(args["r0"])
        ca0 = meta["ndim"] == 2 and meta["dimension_types"][0] == "CA_SUBVAR" and rnd.random() < 0.4
        args["t0"] = _transforms_arg(rnd, knobs, meta, force_strand=ca0)
        specs["s0"] = _cube_spec(rnd, "r0", "t0", scal, ca0)
        if rnd.random() < 0.2:
            specs["s1"] = {"type": "cubeset", "members": [["r0", "t0"]], **scal}
    elif topo == "T3":
        name = _pick_corpus(rnd, knobs)
        args["r0"] = _response_arg(rnd, knobs, name)
        meta = _meta_for(args["r0"])
        args["t0"] = _transforms_arg(rnd, knobs, meta)
        args["t1"] = _transforms_arg(rnd, knobs, meta)
        specs["s0"] = _cube_spec(rnd, "r0", "t0", scal)
        specs["s1"] = _cube_spec(rnd, "r0", "t1", _scalars(rnd))
        if rnd.random() < 0.4:
            specs["s2"] = _cube_spec(rnd, "r0", None, scal)
    elif topo == "T4r":
        name = _pick_corpus(rnd, knobs)
        args["r0"] = _response_arg(rnd, knobs, name)
        args["r1"] = dict(args["r0"])
        args["r1"]["perturb"] = list(args["r0"].get("perturb", [])) + [["refresh", rnd.randrange(100)]]
        if rnd.random() < 0.5:
            args["r1"]["perturb"].append(["floatify"])
        meta = _meta_for(args["r0"])
        args["t0"] = _transforms_arg(rnd, knobs, meta)
        specs["s0"] = _cube_spec(rnd, "r0", "t0", scal)
        specs["s1"] = _cube_spec(rnd, "r1", "t0", scal)
    elif topo == "T4g":
        name = _pick_corpus(rnd, knobs)
        m0 = ix[name]
        peers = [n for n in g["bysig"][(m0["ndim"], m0["partition_class"])] if n != name]
        same_types = [n for n in peers if ix[n]["dimension_types"] == m0["dimension_types"]]
        pool = same_types if (same_types and rnd.random() < 0.6) else (peers or [name])
        other = rnd.choice(pool)
        args["r0"] = _response_arg(rnd, knobs, name)
        args["r1"] = _response_arg(rnd, knobs, other)
        meta = _meta_for(args["r0"])
        if rnd.random() < 0.5:
            # "one analysis for every table": references drawn from both cubes' elements, so
            # that some are valid for one cube only
            meta = _merged_meta(meta, _meta_for(args["r1"]))
        args["t0"] = _transforms_arg(rnd, knobs, meta)
        specs["s0"] = _cube_spec(rnd, "r0", "t0", scal)
        specs["s1"] = _cube_spec(rnd, "r1", "t0", scal)
    elif topo == "T5num":
        # numeric-measure cube sets: 0-D lead shared by two sets
        lead = rnd.choice(g["d0"])
        m1 = rnd.choice(g["d1num"] if rnd.random() < 0.6 else g["d1"])
        m2 = rnd.choice(g["d1num"] if rnd.random() < 0.4 else g["d1"])
        args["r0"] = _response_arg(rnd, knobs, lead, allow_perturb=False)
        if rnd.random() < 0.3:
            args["r0"]["perturb"] = [["dropref", "mean"]]
        args["r1"] = _response_arg(rnd, knobs, m1)
        args["r2"] = _response_arg(rnd, knobs, m2)
        for a in ("r0", "r1", "r2"):
            if rnd.random() < 0.3:
                args[a]["perturb"] = list(args[a].get("perturb", [])) + [["dropref_all"]]
        args["t0"] = {"kind": "transforms", "json": "{}"}
        args["t1"] = _transforms_arg(rnd, knobs, _meta_for(args["r1"]))
        args["t2"] = _transforms_arg(rnd, knobs, _meta_for(args["r2"]))
        specs["s0"] = {"type": "cubeset", "members": [["r0", "t0"], ["r1", "t1"]], **scal}
        specs["s1"] = {"type": "cubeset", "members": [["r0", "t0"], ["r2", "t2"]], **scal}
        if rnd.random() < 0.5:
            specs["s2"] = _cube_spec(rnd, "r1", "t1", scal)
        if rnd.random() < 0.3:
            specs["s3"] = {"type": "cubeset", "members": [["r0", "t0"], ["r1", "t1"], ["r2", "t2"]], **scal}
    elif topo == "T5ca":
        # CA-as-0th lead, or an ordinary tabbook: 1-D/2-D lead, 2-D members
        lead = rnd.choice(g["ca0"]) if rnd.random() < 0.6 else rnd.choice(g["d1plain"] + g["d2"])
        m1 = rnd.choice(g["d2"])
        m2 = rnd.choice(g["d2"] + g["d1plain"])
        args["r0"] = _response_arg(rnd, knobs, lead)
        args["r1"] = _response_arg(rnd, knobs, m1)
        args["r2"] = _response_arg(rnd, knobs, m2)
        args["t0"] = _transforms_arg(rnd, knobs, _meta_for(args["r0"]), force_strand=True)
        args["t1"] = _transforms_arg(rnd, knobs, _meta_for(args["r1"]))
        args["t2"] = _transforms_arg(rnd, knobs, _meta_for(args["r2"]))
        specs["s0"] = {"type": "cubeset", "members": [["r0", "t0"], ["r1", "t1"]], **scal}
        specs["s1"] = {"type": "cubeset", "members": [["r0", "t0"], ["r2", "t2"], ["r1", "t1"]], **scal}
        specs["s2"] = _cube_spec(rnd, "r0", "t0", scal)
        if rnd.random() < 0.5:
            specs["s3"] = _cube_spec(rnd, "r1", "t1", scal)
        if rnd.random() < 0.5:
            # one transforms dict for every member of the set ("the tab-book's default analysis")
            specs["s4"] = {"type": "cubeset", "members": [["r0", "t1"], ["r1", "t1"], ["r2", "t1"]], **scal}
    elif topo == "T5filter":
        n = rnd.randint(3, 7)
        keep1 = sorted(rnd.sample(range(n), rnd.randint(1, n - 1)))
        keep2 = sorted(rnd.sample(range(n), rnd.randint(1, n)))
        args["r0"] = {"kind": "response", "synthetic": ["text_summary", {"n": n, "seed": rnd.randrange(1000)}], "form": "asis"}
        args["r1"] = {"kind": "response", "synthetic": ["text_filter", {"n": n, "keep": keep1, "seed": rnd.randrange(1000)}], "form": "asis"}
        args["r2"] = {"kind": "response", "synthetic": ["text_filter", {"n": n, "keep": keep2, "seed": rnd.randrange(1000)}], "form": "asis"}
        n2 = rnd.randint(3, 7)
        args["r3"] = {"kind": "response", "synthetic": ["text_summary", {"n": n2, "seed": rnd.randrange(1000)}], "form": "asis"}
        args["t0"] = {"kind": "transforms", "json": "{}"}
        args["t1"] = {"kind": "transforms", "json": json.dumps({"rows_dimension": {"prune": rnd.choice([True, False])}})}
        specs["s0"] = {"type": "cubeset", "members": [["r0", "t0"], ["r1", "t1"], ["r2", "t0"]], **scal}
        specs["s1"] = {"type": "cubeset", "members": [["r3", "t0"], ["r1", "t1"]], **scal}
        specs["s2"] = {"type": "cubeset", "members": [["r0", "t0"], ["r2", "t1"]], **scal}
        specs["s3"] = _cube_spec(rnd, "r1", "t1", scal)
    elif topo == "T5bad":
        lead = rnd.choice(g["d0"] + g["ca0"] + g["d1plain"])
        m1 = rnd.choice(g["d1"] + g["d2"])
        m2 = rnd.choice(g["d1"] + g["d2"])
        args["r0"] = _response_arg(rnd, knobs, lead)
        args["r1"] = _response_arg(rnd, knobs, m1)
        args["r2"] = _response_arg(rnd, knobs, m2)
        args["bad"] = {"kind": "bad", "what": rnd.choice(["not-json", "int", "no-result", "list", "none"])}
        args["t0"] = {"kind": "transforms", "json": "{}"}
        args["t1"] = _transforms_arg(rnd, knobs, _meta_for(args["r1"]))
        specs["s0"] = {"type": "cubeset", "members": [["r0", "t0"], ["r1", "t1"], ["bad", "t0"]], **scal}
        specs["s1"] = {"type": "cubeset", "members": [["r0", "t0"], ["r1", "t1"], ["r2", "t0"]], **scal}
        specs["s2"] = {"type": "cubeset", "members": [["r0", "t0"], ["r1", "t1"]], **scal}
    elif topo == "T6":
        name = _pick_corpus(rnd, knobs)
        base = _response_arg(rnd, knobs, name)
        meta = _meta_for(base)
        args["t0"] = _transforms_arg(rnd, knobs, meta)
        forms = list(model.FORMS)
        rnd.shuffle(forms)
        for k, f in enumerate(forms[: rnd.choice([2, 3, 4])]):
            ad = dict(base)
            ad["form"] = f
            args["r%d" % k] = ad
            specs["s%d" % k] = _cube_spec(rnd, "r%d" % k, "t0", scal)
            specs["s%d" % k]["population"] = scal["population"]
        # the envelope and the bare dict may be one and the same inner object
        by_form = {args[a]["form"]: a for a in sorted(args) if args[a]["kind"] == "response"}
        if "asis" in by_form and "toggle" in by_form and rnd.random() < 0.6:
            args[by_form["toggle"]] = {"kind": "response", "view_of": by_form["asis"], "form": "toggle"}
    elif topo == "T9":
        # a "deck": many tables rendered one after the other with ONE default analysis and a
        # fixed script of reads per table (what an exporter does all day)
        n = rnd.randint(4, 8)
        names = [_pick_corpus(rnd, knobs) for _ in range(n)]
        for k, nm in enumerate(names):
            args["r%d" % k] = _response_arg(rnd, knobs, nm)
        if rnd.random() < 0.5:
            args["t0"] = _transforms_arg(rnd, knobs, _meta_for(args["r0"]))
        else:
            generic = {"rows_dimension": {"prune": rnd.choice([True, False])},
                       "columns_dimension": {"prune": rnd.choice([True, False])}}
            if rnd.random() < 0.5:
                generic["pairwise_indices"] = {"alpha": rnd.choice([[0.05], [0.05, 0.01]]), "only_larger": rnd.choice([True, False])}
            args["t0"] = {"kind": "transforms", "json": json.dumps(generic)}
        for k in range(n):
            if k + 1 < n and rnd.random() < 0.25:
                specs["s%d" % k] = {"type": "cubeset", "members": [["r%d" % k, "t0"], ["r%d" % (k + 1), "t0"]], **scal}
            else:
                specs["s%d" % k] = _cube_spec(rnd, "r%d" % k, "t0", scal)
        knobs["mode"] = "deck"
        knobs["max_steps"] = rnd.choice(tier_cfg.get("sweep_steps", [150, 220]))
        knobs["deck_script"] = rnd.choice(["exporter", "alphabetical", "reverse", "numeric-heavy"])
        mar = tier_cfg.get("marathon", {"share_of_T9": 0.03, "steps": 4000})
        if rnd.random() < mar["share_of_T9"]:
            # a marathon: the same deck rendered over and over in ONE process, thousands of
            # reads - what accumulates (counters, bounded caches, leaked levels) gets its chance
            knobs["marathon"] = True
            knobs["max_steps"] = mar["steps"]
            knobs["deck_script"] = rnd.choice(["exporter", "numeric-heavy"])
    elif topo == "T10":
        # one table derived from another: the trimmed response has new lists and new counts but
        # shares the element dicts (and the other dimension dicts) with the full one
        cands = [n for n in g["shimmed"] if ix[n]["ndim"] >= 1 and ix[n]["bytes"] < 40000]
        name = rnd.choice(cands)
        args["r0"] = _response_arg(rnd, knobs, name, allow_perturb=False)
        meta = _meta_for(args["r0"])
        raw = json.loads(model.corpus_text(name))
        rdims = raw.get("value", raw)["result"]["dimensions"]
        enum_dims = [k for k, d in enumerate(rdims) if d["type"].get("class") == "enum" and len(d["type"].get("elements", [])) >= 3]
        di = rnd.choice(enum_dims) if enum_dims else None
        args["t0"] = _transforms_arg(rnd, knobs, meta)
        if di is not None:
            n_el = len(rdims[di]["type"]["elements"])
            args["r1"] = {"kind": "response", "trim_of": "r0", "dim": di, "drop": rnd.randrange(n_el), "form": "asis"}
            specs["s0"] = _cube_spec(rnd, "r1", "t0", scal)
            specs["s2"] = _cube_spec(rnd, "r1", None, scal)
        specs["s1"] = _cube_spec(rnd, "r0", "t0", scal)
        specs["s3"] = _cube_spec(rnd, "r0", None, scal)
    elif topo == "T8":
        # per-dimension transform dicts composed into per-table transforms: the dict object
        # written for the rows of one table is the columns dict of another
        roll = rnd.random()
        name = rnd.choice([n for n in g["mrins"] if ix[n]["ndim"] >= 2]) if roll < 0.2 else (
            rnd.choice(g["d2"]) if roll < 0.85 else rnd.choice(g["nd3"]))
        args["r0"] = _response_arg(rnd, knobs, name)
        meta = _meta_for(args["r0"])
        rows, cols = meta["dims"][-2], meta["dims"][-1]
        from .transforms_gen import gen_dim_transforms, gen_pairwise

        def dim_arg(dim, opp, axis):
            t = gen_dim_transforms(rnd, dim, opp, axis, False, knobs["rich"], knobs["stale_rate"])
            return {"kind": "transforms", "json": json.dumps(t, separators=(",", ":"))}

        args["d0"] = dim_arg(rows, cols, "rows")
        args["d1"] = dim_arg(cols, rows, "columns")
        for which, dim in (("d0", rows), ("d1", cols)):
            derived = [e for e in dim["elements"] if e.get("derived")]
            if dim["type"] == "MR_SUBVAR" and derived and rnd.random() < 0.5:
                # an analysis keyed by alias that also hides a derived insertion
                d = json.loads(args[which]["json"])
                plain = [e for e in dim["elements"] if not e.get("derived") and not e["missing"]]
                el = d.get("elements") or {}
                el = {k: v for k, v in el.items() if k != "key"}
                el["key"] = "alias"
                if plain:
                    el[str(rnd.choice(plain)["alias"])] = {"name": "Second response"}
                d["elements"] = el
                d["insertions"] = [{"function": "any", "name": derived[0]["subvar_id"], "hide": True,
                                    "anchor": "top", "args": [1]}]
                args[which]["json"] = json.dumps(d, separators=(",", ":"))
        args["t0"] = {"kind": "transforms", "compose": {"rows_dimension": "d0", "columns_dimension": "d1"}}
        args["t1"] = {"kind": "transforms", "compose": {"rows_dimension": "d1", "columns_dimension": "d0"}}
        args["t2"] = {"kind": "transforms", "compose": {"rows_dimension": "d0"}}
        if rnd.random() < 0.4:
            args["p0"] = {"kind": "transforms", "json": json.dumps(gen_pairwise(rnd))}
            args["t0"]["compose"]["pairwise_indices"] = "p0"
            args["t2"]["compose"]["pairwise_indices"] = "p0"
        specs["s0"] = _cube_spec(rnd, "r0", "t0", scal)
        specs["s2"] = _cube_spec(rnd, "r0", "t2", scal)
        # the second table: same response refreshed, or another 2-D table
        if rnd.random() < 0.5:
            args["r1"] = dict(args["r0"])
            args["r1"]["perturb"] = list(args["r0"].get("perturb", [])) + [["refresh", rnd.randrange(100)]]
        else:
            args["r1"] = _response_arg(rnd, knobs, rnd.choice(g["d2"]))
        specs["s1"] = _cube_spec(rnd, "r1", "t1", scal)
        specs["s3"] = _cube_spec(rnd, "r1", "t0", scal)
        if rnd.random() < 0.5:
            # two analyses that differ in one setting but share the nested `elements` /
            # `order` / `insertions` objects of a dimension (a copied-and-edited analysis)
            which, axis = rnd.choice([("d0", "rows_dimension"), ("d1", "columns_dimension")])
            d0 = json.loads(args[which]["json"])
            shared_keys = [k for k in ("elements", "order", "insertions") if k in d0]
            if shared_keys:
                for k in shared_keys:
                    args["e_" + k] = {"kind": "transforms", "json": json.dumps(d0[k], separators=(",", ":"))}
                rest = {k: {"lit": json.dumps(v)} for k, v in d0.items() if k not in shared_keys}
                tplA = dict(rest, **{k: "e_" + k for k in shared_keys})
                # the edited copy keeps some of the nested objects and drops the rest
                keep = [k for k in shared_keys if rnd.random() < 0.6] or [rnd.choice(shared_keys)]
                tplB = dict({k: "e_" + k for k in keep}, prune={"lit": json.dumps(not d0.get("prune", False))})
                args["t4"] = {"kind": "transforms", "compose": {axis: tplA}}
                args["t5"] = {"kind": "transforms", "compose": {axis: tplB}}
                specs["s4"] = _cube_spec(rnd, "r0", "t4", scal)
                specs["s5"] = _cube_spec(rnd, "r0", "t5", scal)
    else:
        raise AssertionError(topo)

    # a population handed over as a numpy value, one object for every table of the session
    if rnd.random() < 0.06:
        val = rnd.choice([1000.0, 9001.5, 250000.0])
        args["p0"] = {"kind": "nparray", "value": val, "shape": rnd.choice(["0d", "0d", "1"])}
        for sid in sorted(specs):
            if rnd.random() < 0.8:
                specs[sid]["population"] = {"arg": "p0"}

    # unrelated tables that happen to share an identifier: an array variable of one response
    # gets the alias of an array variable of another (think: two datasets, both with "pets")
    corp = [a for a in sorted(args) if args[a]["kind"] == "response" and "corpus" in args[a]]
    if len({args[a]["corpus"] for a in corp}) >= 2 and rnd.random() < 0.25:
        def array_aliases(aid):
            d = json.loads(model.corpus_text(args[aid]["corpus"]))
            dims = d.get("value", d)["result"]["dimensions"]
            out = []
            for dm in dims:
                t = dm.get("type", {})
                if t.get("class") == "enum" and t.get("subtype", {}).get("class") == "variable":
                    al = (dm.get("references") or {}).get("alias")
                    if al and al not in out:
                        out.append(al)
            return out

        a0, a1 = rnd.sample(corp, 2)
        if args[a0]["corpus"] != args[a1]["corpus"]:
            al0, al1 = array_aliases(a0), array_aliases(a1)
            if al0 and al1:
                args[a1]["perturb"] = list(args[a1].get("perturb", [])) + [["dimalias", rnd.choice(al1), rnd.choice(al0)]]

    # forms: outside T6 responses are mostly dicts (the only form that can be edited)
    if topo != "T6":
        for aid in sorted(args):
            if topo == "T10":
                continue
            if args[aid]["kind"] == "response" and "view_of" not in args[aid] and rnd.random() < 0.12:
                args[aid]["form"] = rnd.choice(["json", "toggle", "json-toggle"])
            elif args[aid]["kind"] == "response" and "F1" in faults and rnd.random() < 0.02:
                # text that parses, but not to an object: every read fails, and must keep failing
                args[aid]["form"] = rnd.choice(["double-json", "json-array"])

    n_clients = rnd.choice(tier_cfg["clients"])
    clients = {"c%d" % i: {"private": False} for i in range(n_clients)}
    if rnd.random() < 0.2:
        clients["c%d" % n_clients] = {"private": True}

    return {
        "format": 1,
        "run_seed": run_seed,
        "knobs": knobs,
        "args": args,
        "specs": specs,
        "clients": clients,
    }
