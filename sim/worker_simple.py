"""Worker interpreter: started fresh by the runner with its own PYTHONHASHSEED.

Imports cr.cube from the working tree of the repository under test, never executes
library logic itself, and forks a history child and an oracle child per run.
Protocol: one JSON object per line on stdin (tasks) and stdout (results).
"""

import json
import os
import sys


def main():
    repo = sys.argv[1]
    verif = os.path.dirname(os.path.dirname(os.path.abspath(__file__)))
    sys.path.insert(0, os.path.join(repo, "src"))
    sys.path.insert(0, verif)
    # The editable install registers the `cr` namespace package with /repo/src/cr at
    # interpreter start-up; point it at the tree under test (a scratch copy with --repo).
    import cr

    cr.__path__ = [os.path.join(os.path.realpath(repo), "src", "cr")]
    out = os.fdopen(os.dup(1), "w", buffering=1)
    # anything the library or numpy prints must not corrupt the protocol stream
    os.dup2(2, 1)

    import numpy
    import scipy

    import cr.cube

    from sim import engine, surface

    surf = surface.build_surface()
    expect = os.path.join(os.path.realpath(repo), "src", "cr", "cube")
    hello = {
        "hello": {
            "pid": os.getpid(),
            "hashseed": os.environ.get("PYTHONHASHSEED"),
            "cr_cube": os.path.dirname(os.path.realpath(cr.cube.__file__)),
            "cr_cube_expected": expect,
            "numpy": numpy.__version__,
            "scipy": scipy.__version__,
            "python": sys.version.split()[0],
            "n_surface_classes": len(surf),
            "n_props": {k: len(v["props"]) for k, v in surf.items() if k in (
                "cube.Cube", "cube.CubeSet", "cubepart._Slice", "cubepart._Strand",
                "cubepart._Nub", "dimension.Dimension")},
            "uncalled_methods": {
                k: sorted(m for m in v["methods"] if m not in surface.CALL_TEMPLATES.get(k, {}))
                for k, v in surf.items()
                if k in ("cube.Cube", "cube.CubeSet", "cubepart._Slice", "cubepart._Strand",
                         "cubepart._Nub", "dimension.Dimension", "dimension.Elements")
                and any(m not in surface.CALL_TEMPLATES.get(k, {}) for m in v["methods"])
            },
        }
    }
    out.write(json.dumps(hello) + "\n")
    for line in sys.stdin:
        line = line.strip()
        if not line:
            continue
        task = json.loads(line)
        t = task.get("t")
        if t == "quit":
            break
        if t == "run":
            res = engine.execute_seed(task["seed"], task["cfg"], surf, want_trace=task.get("trace", False))
        elif t == "replay":
            res = engine.execute_replay(task["scenario"], task["ops"], surf)
        else:
            res = {"status": "harness_error", "error": "unknown task %r" % (t,)}
        res["tag"] = task.get("tag")
        res["hashseed"] = int(os.environ.get("PYTHONHASHSEED", "0") or 0)
        out.write(json.dumps(res) + "\n")
    out.close()


if __name__ == "__main__":
    main()
