"""Workload grammar for transforms dicts (DESIGN Appendix B).

Pure Python over the corpus index metadata; never touches cr.cube. Everything produced
is JSON-native so that the persistence round trip (F3) is meaningful.
"""

ARRAY = ("CA_SUBVAR", "MR_SUBVAR", "NUM_ARRAY")
SHIMMED = ARRAY + ("DATETIME",)

MATRIX_MEASURES = [
    "col_base_unweighted", "col_base_weighted", "col_index", "col_percent", "col_percent_moe",
    "col_share_sum", "col_std_dev", "col_std_err", "mean", "population", "population_moe",
    "p_value", "row_base_unweighted", "row_base_weighted", "row_percent", "row_percent_moe",
    "row_share_sum", "row_std_dev", "row_std_err", "stddev", "sum", "table_percent",
    "table_percent_moe", "table_std_dev", "table_std_err", "table_base_unweighted",
    "table_base_weighted", "total_share_sum", "count_unweighted", "valid_count_unweighted",
    "count_weighted", "valid_count_weighted", "z_score",
    # --- members of MEASURE without sort support, and a non-member: fault F1 ---
    "median", "pairwise_t_test", "smoothed_mean", "no_such_measure",
]
MARGINALS = [
    "unweighted_base", "weighted_base", "table_proportion", "scale_mean", "scale_mean_stddev",
    "scale_mean_stderr", "scale_median", "no_such_marginal",
]
STRIPE_MEASURES = [
    "base_unweighted", "base_weighted", "count_unweighted", "count_weighted", "mean", "percent",
    "percent_moe", "percent_stddev", "percent_stderr", "population", "population_moe",
    "share_sum", "sum", "no_such_measure",
]
STALE = ["nope", "9999", 9999, -7, "0099", "zz__stale", None, 3.5]


def _valid(dim):
    return [e for e in dim["elements"] if not e["missing"]]


def spellings(dim, el, pos):
    """Every way a transform may refer to element `el` (at position `pos`)."""
    out = []
    if dim["type"] in ARRAY:
        if el.get("alias") is not None:
            out.append(el["alias"])
        if el.get("subvar_id") is not None:
            out.append(el["subvar_id"])
        out.append(el["id"])
        out.append(str(el["id"]))
        out.append(pos)
        out.append(str(pos))
    elif dim["type"] == "DATETIME":
        out.append(el["id"])
        out.append(str(el["id"]))
        if el.get("value") is not None:
            out.append(el["value"])
    else:
        out.append(el["id"])
        out.append(str(el["id"]))
    return out


def ref(rnd, dim, stale_rate):
    els = dim["elements"]
    if not els or rnd.random() < stale_rate:
        return rnd.choice(STALE)
    pos = rnd.randrange(len(els))
    return rnd.choice(spellings(dim, els[pos], pos))


def key_ref(rnd, dim, stale_rate):
    """Element-transform keys are JSON object names, i.e. strings."""
    for _ in range(8):
        r = ref(rnd, dim, stale_rate)
        if r is None or isinstance(r, float):
            continue
        return str(r)
    return "nope"


def gen_elements(rnd, dim, stale_rate):
    n = rnd.choice([1, 1, 2, 3, 4])
    out = {}
    for _ in range(n):
        k = key_ref(rnd, dim, stale_rate)
        t = {}
        roll = rnd.random()
        if roll < 0.55:
            t["hide"] = rnd.choice([True, True, True, False])
        if roll > 0.4:
            t["name"] = rnd.choice(["Renamed %s" % k, "", "X", "Zed"])
        if rnd.random() < 0.2:
            t["fill"] = rnd.choice(["#af032d", "#00ff00", ""])
        out[k] = t or {"hide": True}
    if dim["type"] in ARRAY and rnd.random() < 0.15:
        # the (undocumented) marker saying how the keys are to be read; with "subvar_id" a key
        # that is no sub-variable id must match nothing - even when it looks like an element id
        out["key"] = rnd.choice(["alias", "subvar_id"])
        if out["key"] == "subvar_id" and dim["elements"]:
            el = rnd.choice(dim["elements"])
            out["%04d" % el["id"] if isinstance(el["id"], int) and el["id"] >= 0 else str(el["id"])] = {"hide": True}
    return out


def gen_fixed(rnd, dim, stale_rate):
    fixed = {}
    if rnd.random() < 0.6:
        fixed["top"] = [ref(rnd, dim, stale_rate) for _ in range(rnd.choice([1, 1, 2]))]
    if rnd.random() < 0.6:
        fixed["bottom"] = [ref(rnd, dim, stale_rate) for _ in range(rnd.choice([1, 1, 2]))]
    return fixed


def gen_insertion_ids(dim, tdict):
    ids = list(dim.get("view_insertion_ids") or [])
    for k, ins in enumerate(tdict.get("insertions", []) if tdict else []):
        ids.append(ins.get("id", k + 1))
    return [i for i in ids if i is not None]


def gen_order(rnd, dim, opposing, axis, is_strand, stale_rate, own_insertion_ids, opp_insertion_ids):
    roll = rnd.random()
    if roll < 0.45 or (opposing is None and not is_strand and roll < 0.7):
        n = len(dim["elements"])
        k = rnd.randint(1, max(1, min(n + 1, 6)))
        ids = [ref(rnd, dim, stale_rate) for _ in range(k)]
        if ids and rnd.random() < 0.25:
            ids.append(ids[0])  # repeat
        o = {"type": "explicit", "element_ids": ids}
        if rnd.random() < 0.3:
            o["fixed"] = gen_fixed(rnd, dim, stale_rate)
        return o
    if roll < 0.5:
        return {"type": "payload_order"}
    if is_strand:
        o = {"type": "univariate_measure", "measure": rnd.choice(STRIPE_MEASURES)}
        if rnd.random() < 0.25:
            o = {"type": "label"}
    else:
        kind = rnd.choice(["opposing_element", "opposing_element", "marginal", "label", "opposing_insertion"])
        if axis == "columns" and kind == "marginal":
            kind = "opposing_element"
        if kind == "opposing_element":
            o = {
                "type": "opposing_element",
                "element_id": ref(rnd, opposing, stale_rate) if opposing else 1,
                "measure": rnd.choice(MATRIX_MEASURES),
            }
        elif kind == "opposing_insertion":
            pool = list(opp_insertion_ids) + [1, 99]
            if opposing and opposing["type"] in ARRAY:
                pool.append(ref(rnd, opposing, stale_rate))
            o = {
                "type": "opposing_insertion",
                "insertion_id": rnd.choice(pool),
                "measure": rnd.choice(MATRIX_MEASURES),
            }
        elif kind == "marginal":
            o = {"type": "marginal", "marginal": rnd.choice(MARGINALS)}
        else:
            o = {"type": "label"}
    if rnd.random() < 0.4:
        o["direction"] = rnd.choice(["ascending", "descending"])
    if rnd.random() < 0.35:
        o["fixed"] = gen_fixed(rnd, dim, stale_rate)
    return o


def gen_insertions(rnd, dim, stale_rate):
    valid = _valid(dim)
    ids = [e["id"] for e in valid]
    if not ids:
        return []
    out = []
    id_mode = rnd.choice(["all", "none", "none", "mixed"])
    for k in range(rnd.choice([1, 2, 2, 3])):
        pos = rnd.sample(ids, min(len(ids), rnd.choice([1, 2, 2, 3])))
        if rnd.random() < stale_rate:
            pos.append(9999)
        ins = {
            "function": "subtotal",
            "name": "Sub %d" % (k + 1),
            "anchor": rnd.choice(["top", "bottom", "Top", rnd.choice(ids), str(rnd.choice(ids)), 9999, None]),
        }
        if rnd.random() < 0.5:
            ins["args"] = pos
        else:
            ins["kwargs"] = {"positive": pos}
            if rnd.random() < 0.35:
                ins["kwargs"]["negative"] = rnd.sample(ids, min(len(ids), rnd.choice([1, 2])))
        if id_mode == "all" or (id_mode == "mixed" and rnd.random() < 0.5):
            ins["id"] = rnd.choice([k + 1, k + 1, 10 + k, 1])
        if rnd.random() < 0.15:
            ins["hide"] = True
        if rnd.random() < 0.15:
            ins["alias"] = "sub_%d" % (k + 1)
        out.append(ins)
    return out


def gen_dim_transforms(rnd, dim, opposing, axis, is_strand, rich, stale_rate, opp_insertion_ids=()):
    t = {}
    if rnd.random() < 0.25 + 0.45 * rich:
        t["elements"] = gen_elements(rnd, dim, stale_rate)
    if dim["type"] not in ("CA_SUBVAR", "MR_SUBVAR") and rnd.random() < 0.15 + 0.3 * rich:
        t["insertions"] = gen_insertions(rnd, dim, stale_rate)
    derived = [e for e in dim["elements"] if e.get("derived")]
    if dim["type"] == "MR_SUBVAR" and derived and rnd.random() < 0.6:
        # a (complete) copy of a variable-level MR insertion with "hide": the way a client
        # suppresses a derived sub-variable (Elements._hidden_transforms)
        t["insertions"] = [
            {"function": "any", "name": e["subvar_id"], "hide": rnd.choice([True, True, False]),
             "anchor": "top", "args": [1]}
            for e in derived if rnd.random() < 0.7
        ] or [{"function": "any", "name": derived[0]["subvar_id"], "hide": True, "anchor": "top", "args": [1]}]
        if rnd.random() < stale_rate:
            t["insertions"].append({"function": "any", "name": "no such insertion", "hide": True})
    if rnd.random() < 0.3 + 0.45 * rich:
        t["order"] = gen_order(
            rnd, dim, opposing, axis, is_strand, stale_rate, gen_insertion_ids(dim, t), opp_insertion_ids
        )
    if rnd.random() < 0.3:
        t["prune"] = rnd.choice([True, True, False])
    smooth_axis = "rows" if is_strand else "columns"
    if axis == smooth_axis and rnd.random() < (0.5 if dim["type"] == "CAT_DATE" else 0.08):
        n = len(_valid(dim))
        t["smoother"] = {"function": "one_sided_moving_avg", "window": rnd.choice([1, 2, 2, 3, n, n + 1])}
    if rnd.random() < 0.1:
        t["name"] = rnd.choice(["Renamed dim", "", None])
    if rnd.random() < 0.06:
        t["description"] = rnd.choice(["Some description", None])
    return t


def gen_pairwise(rnd):
    alpha = rnd.choice(
        [[0.05], [0.05, 0.01], [0.1, 0.001], 0.05, [0.5], [], None, [1.5], "0.05", [0.05, "x"], 0]
    )
    p = {"alpha": alpha}
    if rnd.random() < 0.4:
        p["only_larger"] = rnd.choice([True, False])
    return p


def gen_transforms(rnd, meta, rich=0.5, stale_rate=0.15, force_strand=False):
    """A transforms dict for a cube whose corpus metadata is `meta`."""
    dims = meta["dims"]
    t = {}
    if not dims:
        return t
    is_strand = force_strand or meta["partition_class"] == "_Strand" or len(dims) == 1
    if is_strand:
        rows, cols = dims[-1], None
    else:
        rows, cols = dims[-2], dims[-1]
    if rnd.random() < 0.85:
        t["rows_dimension"] = gen_dim_transforms(rnd, rows, cols, "rows", is_strand, rich, stale_rate)
    if cols is not None and rnd.random() < 0.8:
        opp_ins = gen_insertion_ids(rows, t.get("rows_dimension"))
        t["columns_dimension"] = gen_dim_transforms(
            rnd, cols, rows, "columns", False, rich, stale_rate, opp_ins
        )
    if not is_strand and rnd.random() < 0.25:
        t["pairwise_indices"] = gen_pairwise(rnd)
    return t
