"""Pool of fresh worker interpreters, grouped by PYTHONHASHSEED family."""

import json
import os
import queue
import subprocess
import sys
import threading
from concurrent.futures import Future

HERE = os.path.dirname(os.path.abspath(__file__))
PYTHON = os.environ.get("VERIF_PYTHON", "/venv/bin/python")


# The hosting environment of a worker interpreter, beyond its hash seed: time zone and
# whether asserts are compiled away (python -O). Twin runs differ in all three.
DEFAULT_PROFILE = {"tz": "UTC0", "opt": False}
TWIN_PROFILE = {"tz": "JST-9", "opt": True}


def env_of(hashseed, profile=None):
    p = dict(DEFAULT_PROFILE, **(profile or {}))
    return {"hashseed": hashseed, "tz": p["tz"], "opt": p["opt"]}


def group_for_env(env):
    """Pool group spec for exactly one worker running in `env`."""
    return (1, env["hashseed"], {"tz": env.get("tz", "UTC0"), "opt": bool(env.get("opt"))})


class WorkerDied(Exception):
    pass


class _Worker(threading.Thread):
    def __init__(self, pool, group, idx, hashseed, profile=None):
        super().__init__(daemon=True)
        self.pool, self.group, self.idx, self.hashseed = pool, group, idx, hashseed
        self.profile = dict(DEFAULT_PROFILE, **(profile or {}))
        self.proc = None
        self.hello = None
        self.busy_since = None

    def _spawn(self):
        env = dict(os.environ)
        env.update(
            PYTHONHASHSEED=str(self.hashseed),
            TZ=self.profile["tz"],
            OPENBLAS_NUM_THREADS="1",
            OMP_NUM_THREADS="1",
            MKL_NUM_THREADS="1",
            PYTHONDONTWRITEBYTECODE="1",
        )
        env.pop("PYTHONPATH", None)
        self.proc = subprocess.Popen(
            [PYTHON, "-u", "-X", "faulthandler"] + (["-O"] if self.profile["opt"] else [])
            + [os.path.join(HERE, os.environ.get("VERIF_WORKER_SCRIPT", "worker.py")), self.pool.repo],
            stdin=subprocess.PIPE,
            stdout=subprocess.PIPE,
            env=env,
            cwd="/",
            text=True,
            bufsize=1,
        )
        line = self.proc.stdout.readline()
        if not line:
            raise WorkerDied("worker failed to start (group %s)" % self.group)
        self.hello = json.loads(line)["hello"]

    def run(self):
        try:
            self._spawn()
        except Exception as e:  # noqa
            self.pool.startup_errors.append(repr(e))
            self.pool.ready.release()
            return
        self.pool.ready.release()
        q = self.pool.queues[self.group]
        while True:
            item = q.get()
            if item is None:
                break
            task, fut = item
            try:
                import time

                self.busy_since = time.time()
                self.proc.stdin.write(json.dumps(task) + "\n")
                self.proc.stdin.flush()
                line = self.proc.stdout.readline()
                if not line:
                    raise WorkerDied("worker %s/%d died (exit %r)" % (self.group, self.idx, self.proc.poll()))
                fut.set_result(json.loads(line))
            except Exception as e:  # noqa
                fut.set_result({"status": "harness_error", "error": "worker failure: %r" % (e,),
                                "run_seed": task.get("seed"), "tag": task.get("tag")})
                try:
                    self.proc.kill()
                except Exception:
                    pass
                try:
                    self._spawn()
                except Exception as e2:  # noqa
                    self.pool.startup_errors.append(repr(e2))
                    break
            finally:
                self.busy_since = None
        try:
            self.proc.stdin.write('{"t":"quit"}\n')
            self.proc.stdin.flush()
            self.proc.stdin.close()
            self.proc.wait(timeout=10)
        except Exception:
            try:
                self.proc.kill()
            except Exception:
                pass


class Pool:
    def __init__(self, repo, groups):
        """groups: {"A": (n_workers, hashseed_base[, profile]), ...}"""
        self.repo = repo
        self.queues = {g: queue.Queue() for g in groups}
        self.workers = []
        self.startup_errors = []
        self.ready = threading.Semaphore(0)
        for g, spec in sorted(groups.items()):
            n, base = spec[0], spec[1]
            profile = spec[2] if len(spec) > 2 else None
            for i in range(n):
                w = _Worker(self, g, i, base + i, profile)
                self.workers.append(w)
                w.start()
        for _ in self.workers:
            self.ready.acquire()
        if self.startup_errors:
            self.close()
            raise WorkerDied("; ".join(self.startup_errors))

    def hellos(self):
        return [dict(w.hello, group=w.group) for w in self.workers if w.hello]

    def submit(self, task, group):
        fut = Future()
        self.queues[group].put((task, fut))
        return fut

    def close(self):
        for w in self.workers:
            self.queues[w.group].put(None)
        for w in self.workers:
            w.join(timeout=15)
            if w.proc and w.proc.poll() is None:
                try:
                    w.proc.kill()
                except Exception:
                    pass

    def kill(self):
        for w in self.workers:
            if w.proc and w.proc.poll() is None:
                try:
                    w.proc.kill()
                except Exception:
                    pass
