"""Pool of fresh worker interpreters, grouped by PYTHONHASHSEED family."""

import json
import os
import queue
import subprocess
import sys
import threading
from concurrent.futures import Future

HERE = os.path.dirname(os.path.abspath(__file__))
PYTHON = os.environ.get("VERIF_PYTHON", "/venv/bin/python")


class WorkerDied(Exception):
    pass


class _Worker(threading.Thread):
    def __init__(self, pool, group, idx, hashseed):
        super().__init__(daemon=True)
        self.pool, self.group, self.idx, self.hashseed = pool, group, idx, hashseed
        self.proc = None
        self.hello = None
        self.busy_since = None

    def _spawn(self):
        env = dict(os.environ)
        env.update(
            PYTHONHASHSEED=str(self.hashseed),
            OPENBLAS_NUM_THREADS="1",
            OMP_NUM_THREADS="1",
            MKL_NUM_THREADS="1",
            PYTHONDONTWRITEBYTECODE="1",
        )
        env.pop("PYTHONPATH", None)
        self.proc = subprocess.Popen(
            [PYTHON, "-u", "-X", "faulthandler",
             os.path.join(HERE, os.environ.get("VERIF_WORKER_SCRIPT", "worker.py")), self.pool.repo],
            stdin=subprocess.PIPE,
            stdout=subprocess.PIPE,
            env=env,
            cwd="/",
            text=True,
            bufsize=1,
        )
        line = self.proc.stdout.readline()
        if not line:
            raise WorkerDied("worker failed to start (group %s)" % self.group)
        self.hello = json.loads(line)["hello"]

    def run(self):
        try:
            self._spawn()
        except Exception as e:  # noqa
            self.pool.startup_errors.append(repr(e))
            self.pool.ready.release()
            return
        self.pool.ready.release()
        q = self.pool.queues[self.group]
        while True:
            item = q.get()
            if item is None:
                break
            task, fut = item
            try:
                import time

                self.busy_since = time.time()
                self.proc.stdin.write(json.dumps(task) + "\n")
                self.proc.stdin.flush()
                line = self.proc.stdout.readline()
                if not line:
                    raise WorkerDied("worker %s/%d died (exit %r)" % (self.group, self.idx, self.proc.poll()))
                fut.set_result(json.loads(line))
            except Exception as e:  # noqa
                fut.set_result({"status": "harness_error", "error": "worker failure: %r" % (e,),
                                "run_seed": task.get("seed"), "tag": task.get("tag")})
                try:
                    self.proc.kill()
                except Exception:
                    pass
                try:
                    self._spawn()
                except Exception as e2:  # noqa
                    self.pool.startup_errors.append(repr(e2))
                    break
            finally:
                self.busy_since = None
        try:
            self.proc.stdin.write('{"t":"quit"}\n')
            self.proc.stdin.flush()
            self.proc.stdin.close()
            self.proc.wait(timeout=10)
        except Exception:
            try:
                self.proc.kill()
            except Exception:
                pass


class Pool:
    def __init__(self, repo, groups):
        """groups: {"A": (n_workers, hashseed_base), ...}"""
        self.repo = repo
        self.queues = {g: queue.Queue() for g in groups}
        self.workers = []
        self.startup_errors = []
        self.ready = threading.Semaphore(0)
        for g, (n, base) in sorted(groups.items()):
            for i in range(n):
                w = _Worker(self, g, i, base + i)
                self.workers.append(w)
                w.start()
        for _ in self.workers:
            self.ready.acquire()
        if self.startup_errors:
            self.close()
            raise WorkerDied("; ".join(self.startup_errors))

    def hellos(self):
        return [dict(w.hello, group=w.group) for w in self.workers if w.hello]

    def submit(self, task, group):
        fut = Future()
        self.queues[group].put((task, fut))
        return fut

    def close(self):
        for w in self.workers:
            self.queues[w.group].put(None)
        for w in self.workers:
            w.join(timeout=15)
            if w.proc and w.proc.poll() is None:
                try:
                    w.proc.kill()
                except Exception:
                    pass

    def kill(self):
        for w in self.workers:
            if w.proc and w.proc.poll() is None:
                try:
                    w.proc.kill()
                except Exception:
                    pass
