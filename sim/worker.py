"""Worker interpreter: started fresh by the runner with its own PYTHONHASHSEED.

Imports cr.cube from the working tree of the repository under test and then never does
anything but fork: every task (scenario generation included) runs in a *task child*
forked from this process, which in turn forks the history child, the oracle child and
the purity children. The parent reads the task line as bytes and copies the answer
through without parsing either, so its heap is the same at every fork: whatever state a
run starts from (module state, allocator free lists, address reuse pattern) is the state
right after start-up, in the worker that searches as well as in the brand-new interpreter
that replays (DESIGN 7).
Protocol: one JSON object per line on stdin (tasks) and stdout (results).
"""

import json
import os
import select
import signal
import sys
import time

TASK_TIMEOUT_S = 900


def run_task(line, surf, engine):
    task = json.loads(line)
    t = task.get("t")
    if t == "run":
        res = engine.execute_seed(task["seed"], task["cfg"], surf, want_trace=task.get("trace", False))
    elif t == "replay":
        res = engine.execute_replay(task["scenario"], task["ops"], surf)
    else:
        res = {"status": "harness_error", "error": "unknown task %r" % (t,)}
    res["tag"] = task.get("tag")
    res["hashseed"] = int(os.environ.get("PYTHONHASHSEED", "0") or 0)
    res["env"] = {"hashseed": res["hashseed"], "tz": os.environ.get("TZ", ""), "opt": bool(sys.flags.optimize)}
    return res


def main():
    repo = sys.argv[1]
    verif = os.path.dirname(os.path.dirname(os.path.abspath(__file__)))
    sys.path.insert(0, os.path.join(repo, "src"))
    sys.path.insert(0, verif)
    # The editable install registers the `cr` namespace package with /repo/src/cr at
    # interpreter start-up; point it at the tree under test (a scratch copy with --repo).
    import cr

    cr.__path__ = [os.path.join(os.path.realpath(repo), "src", "cr")]
    out_fd = os.dup(1)
    # anything the library or numpy prints must not corrupt the protocol stream
    os.dup2(2, 1)

    import numpy
    import scipy

    import cr.cube

    from sim import engine, surface

    surf = surface.build_surface()
    expect = os.path.join(os.path.realpath(repo), "src", "cr", "cube")
    keys = ("cube.Cube", "cube.CubeSet", "cubepart._Slice", "cubepart._Strand", "cubepart._Nub",
            "dimension.Dimension", "dimension.Elements")
    hello = {
        "hello": {
            "pid": os.getpid(),
            "hashseed": os.environ.get("PYTHONHASHSEED"),
            "cr_cube": os.path.dirname(os.path.realpath(cr.cube.__file__)),
            "cr_cube_expected": expect,
            "numpy": numpy.__version__,
            "scipy": scipy.__version__,
            "python": sys.version.split()[0],
            "n_surface_classes": len(surf),
            "n_props": {k: len(v["props"]) for k, v in surf.items() if k in keys[:6]},
            "uncalled_methods": {
                k: sorted(m for m in v["methods"] if m not in surface.CALL_TEMPLATES.get(k, {}))
                for k, v in surf.items()
                if k in keys and any(m not in surface.CALL_TEMPLATES.get(k, {}) for m in v["methods"])
            },
        }
    }
    os.write(out_fd, (json.dumps(hello) + "\n").encode())
    del hello
    stdin = sys.stdin.buffer
    while True:
        line = stdin.readline()
        if not line:
            break
        if line.strip() == b'{"t":"quit"}':
            break
        if not line.strip():
            continue
        r, w = os.pipe()
        pid = os.fork()
        if pid == 0:
            code = 0
            try:
                os.close(r)
                try:
                    res = run_task(line, surf, engine)
                except BaseException as e:  # noqa: B902
                    res = {"status": "harness_error", "error": "task child failed: %r" % (e,)}
                with os.fdopen(w, "wb") as f:
                    f.write(json.dumps(res).encode() + b"\n")
            except BaseException:  # noqa: B902
                code = 3
            finally:
                os._exit(code)
        os.close(w)
        deadline = time.time() + TASK_TIMEOUT_S
        chunks = []
        timed_out = False
        while True:
            left = deadline - time.time()
            if left <= 0:
                timed_out = True
                break
            ready, _, _ = select.select([r], [], [], left)
            if not ready:
                continue
            b = os.read(r, 1 << 16)
            if not b:
                break
            chunks.append(b)
        os.close(r)
        if timed_out:
            try:
                os.kill(pid, signal.SIGKILL)
            except OSError:
                pass
        os.waitpid(pid, 0)
        data = b"".join(chunks)
        if timed_out or not data.endswith(b"\n"):
            data = (json.dumps({"status": "harness_error",
                                "error": "task child %s" % ("timed out" if timed_out else "died without a result")})
                    + "\n").encode()
        view = memoryview(data)
        while view:
            n = os.write(out_fd, view)
            view = view[n:]
        del view, data, chunks, line
    os.close(out_fd)


if __name__ == "__main__":
    main()
