"""Canonical, bit-exact encoding of everything a read can return (DESIGN 3.7).

`observe(value)` -> (digest, short, skeleton, exception type name or None)

* digest   : sha1 hex of the canonical encoding. Equality of digests is the oracle.
* short    : truncated human-readable rendering for traces and replay files.
* skeleton : None for plain values; {"cls": name} for a cr.cube object,
             {"seq": [...]} for a sequence that contains cr.cube objects. The
             scheduler learns the object tree from skeletons only (never by peeking
             at the objects under test, which would itself be a read).

Nothing here may depend on PYTHONHASHSEED: sets and dicts are encoded sorted.
"""

import enum
import hashlib
import re
import struct

import numpy as np

_ADDR = re.compile(r"0x[0-9a-fA-F]+")
_MAX_SEQ_SKEL = 80


def _is_cube_obj(v):
    mod = getattr(type(v), "__module__", "") or ""
    return mod == "cr.cube" or mod.startswith("cr.cube.")


def _float_token(f):
    if f != f:
        return "nan"
    return struct.pack(">d", f).hex()


def _enc_array(a, out):
    # C-contiguity and writeability are observable by the caller (buffer consumers, in-place
    # use of the result) and must not depend on history any more than the numbers do
    out.append("A|%s|%s|%s%s|" % (a.dtype.str, ",".join(map(str, a.shape)),
                                  "C" if a.flags.c_contiguous else "s", "w" if a.flags.writeable else "r"))
    if a.dtype.kind == "O":
        for x in a.ravel().tolist():
            _enc(x, out)
        return
    a = np.ascontiguousarray(a)
    if a.dtype.kind in "fc":
        nan = np.isnan(a)
        if nan.any():
            a = a.copy()
            a[nan] = np.nan  # one NaN payload; sign and payload are not observable
    out.append(hashlib.sha1(a.tobytes()).hexdigest())


def _enc(v, out, depth=0):
    if depth > 40:
        out.append("DEEP")
        return
    if v is None:
        out.append("N")
    elif isinstance(v, bool):
        out.append("B1" if v else "B0")
    elif isinstance(v, enum.Enum):
        out.append("E|%s|%s" % (type(v).__name__, v.name))
    elif isinstance(v, int):
        out.append("I%d" % v)
    elif isinstance(v, float):
        out.append("F" + _float_token(v))
    elif isinstance(v, str):
        out.append("S%d:%s" % (len(v), v))
    elif isinstance(v, bytes):
        out.append("Y" + v.hex())
    elif isinstance(v, np.ndarray):
        _enc_array(v, out)
    elif isinstance(v, np.generic):
        out.append("G|%s|" % v.dtype.str)
        if v.dtype.kind == "f":
            out.append(_float_token(float(v)))
        elif v.dtype.kind == "c":
            out.append(_float_token(float(v.real)) + "/" + _float_token(float(v.imag)))
        else:
            _enc(v.item(), out, depth + 1)
    elif isinstance(v, BaseException):
        out.append("X|%s|%s" % (type(v).__name__, _ADDR.sub("0x?", str(v))))
    elif _is_cube_obj(v):
        cname = type(v).__name__
        if cname == "_DimensionType":
            out.append("DT|%s" % getattr(v, "_name", "?"))
        elif isinstance(v, (tuple, list)) or hasattr(type(v), "__len__") and hasattr(type(v), "__getitem__"):
            try:
                n = len(v)
            except Exception as e:  # a lazy sequence whose evaluation fails
                out.append("O|%s|lenfail|" % cname)
                _enc(e, out, depth + 1)
                return
            out.append("O|%s|len=%d" % (cname, n))
        else:
            out.append("O|%s" % cname)
    elif isinstance(v, (tuple, list)):
        out.append(("T" if isinstance(v, tuple) else "L") + "%d[" % len(v))
        for x in v:
            _enc(x, out, depth + 1)
        out.append("]")
    elif isinstance(v, dict):
        items = []
        for k, x in v.items():
            ko, xo = [], []
            _enc(k, ko, depth + 1)
            _enc(x, xo, depth + 1)
            items.append(("".join(ko), "".join(xo)))
        items.sort()
        out.append("D%d{" % len(items))
        for k, x in items:
            out.append(k + "=>" + x + ";")
        out.append("}")
    elif isinstance(v, (set, frozenset)):
        items = []
        for x in v:
            xo = []
            _enc(x, xo, depth + 1)
            items.append("".join(xo))
        items.sort()
        out.append(("Z" if isinstance(v, frozenset) else "z") + "%d{" % len(items) + ";".join(items) + "}")
    elif isinstance(v, range):
        out.append("R%d:%d:%d" % (v.start, v.stop, v.step))
    else:
        out.append("?|%s|%s" % (type(v).__name__, _ADDR.sub("0x?", repr(v))[:200]))


def qualname(cls):
    mod = cls.__module__
    if mod.startswith("cr.cube."):
        mod = mod[len("cr.cube."):]
    return "%s.%s" % (mod, cls.__name__)


def _skeleton(v, depth=0):
    if depth > 3:
        return None
    if _is_cube_obj(v):
        cname = type(v).__name__
        if cname == "_DimensionType":
            return None
        sk = {"cls": qualname(type(v))}
        if hasattr(type(v), "__len__") and hasattr(type(v), "__getitem__"):
            try:
                n = len(v)
                items = [_skeleton(v[i], depth + 1) for i in range(min(n, _MAX_SEQ_SKEL))]
                if any(i is not None for i in items):
                    sk["seq"] = items
            except Exception:
                pass
        return sk
    if isinstance(v, (tuple, list)):
        items = [_skeleton(x, depth + 1) for x in v[:_MAX_SEQ_SKEL]]
        if any(i is not None for i in items):
            return {"seq": items}
    return None


def _safe_repr(v, depth=0):
    """repr() that never calls the __repr__ of a cr.cube object (which would be a read)."""
    if _is_cube_obj(v):
        cname = type(v).__name__
        if cname == "_DimensionType":
            return "DT.%s" % getattr(v, "_name", "?")
        return "<%s>" % cname
    if depth > 4:
        return "..."
    if isinstance(v, BaseException):
        return "%s: %s" % (type(v).__name__, v)
    if isinstance(v, np.ndarray):
        if v.dtype.kind == "O":
            return "ndarray|O%s [%s]" % (list(v.shape), ", ".join(_safe_repr(x, depth + 1) for x in v.ravel().tolist()[:8]))
        return "ndarray%s%s %s" % (
            v.dtype.str, list(v.shape),
            np.array2string(v, threshold=12, edgeitems=3, precision=6).replace("\n", " "),
        )
    if isinstance(v, (tuple, list)):
        inner = ", ".join(_safe_repr(x, depth + 1) for x in v[:12]) + (", ..." if len(v) > 12 else "")
        return ("(%s)" if isinstance(v, tuple) else "[%s]") % inner
    if isinstance(v, dict):
        items = list(v.items())[:8]
        return "{%s}" % ", ".join("%s: %s" % (_safe_repr(k, depth + 1), _safe_repr(x, depth + 1)) for k, x in items)
    if isinstance(v, (set, frozenset)):
        return "{%s}" % ", ".join(sorted(_safe_repr(x, depth + 1) for x in v))
    return repr(v)


def short_repr(v, limit=160):
    try:
        s = _safe_repr(v)
    except Exception as e:  # repr of a half-built object
        s = "<unreprable %s: %s>" % (type(v).__name__, type(e).__name__)
    s = _ADDR.sub("0x?", s)
    return s if len(s) <= limit else s[: limit - 3] + "..."


def observe(value):
    out = []
    _enc(value, out)
    digest = hashlib.sha1("\x1f".join(out).encode("utf-8", "surrogatepass")).hexdigest()
    exc = type(value).__name__ if isinstance(value, BaseException) else None
    return digest, short_repr(value), _skeleton(value), exc


def json_digest(obj):
    """Digest of a (possibly edited) argument object: canonical, order-insensitive."""
    out = []
    _enc(obj, out)
    return hashlib.sha1("\x1f".join(out).encode("utf-8", "surrogatepass")).hexdigest()[:16]
