"""Shrink a violating (scenario, op list) while the same violation class persists."""

import copy
import json
import time

from . import findings, model
from .world import path_arg_ids


def prune_dangling(ops):
    """Drop ops that refer to handles which do not exist at that point."""
    live = set()
    out = []
    for op in ops:
        k = op[0]
        if k == "CONSTRUCT":
            live.add((op[1], op[2]))
            out.append(op)
        elif k == "HOLD":
            if (op[1], op[3]) in live:
                live.add((op[1], op[2]))
                out.append(op)
        elif k in ("READ", "READX", "DROP"):
            if (op[1], op[2]) in live:
                out.append(op)
                if k == "DROP":
                    live.discard((op[1], op[2]))
        else:
            out.append(op)
    return out


def used_ids(sc, ops):
    specs, clients, args = set(), set(), set()
    for op in ops:
        k = op[0]
        if k == "CONSTRUCT":
            clients.add(op[1])
            specs.add(op[3])
        elif k in ("READ", "READX"):
            args.update(path_arg_ids(op[3]))
        elif k == "HOLD":
            args.update(path_arg_ids(op[4]))
            clients.add(op[1])
        elif k == "PROBE":
            specs.add(op[1])
            args.update(path_arg_ids(op[2]))
        elif k in ("RELOAD", "EDIT"):
            args.add(op[1])
    for sid in specs:
        args.update(model.spec_arg_ids(sc["specs"][sid]))
    grew = True
    while grew:  # bases of derived arguments (envelope views, composed transforms)
        grew = False
        for a in list(args):
            ad = sc["args"].get(a, {})
            for b in ([ad["view_of"]] if "view_of" in ad else []) + ([ad["trim_of"]] if "trim_of" in ad else []) + (
                    model.compose_refs(ad["compose"]) if "compose" in ad else []):
                if b not in args:
                    args.add(b)
                    grew = True
    return specs, clients, args


def strip_unused(sc, ops):
    specs, clients, args = used_ids(sc, ops)
    sc = copy.deepcopy(sc)
    sc["specs"] = {k: v for k, v in sc["specs"].items() if k in specs}
    sc["clients"] = {k: v for k, v in sc["clients"].items() if k in clients} or {"c0": {"private": False}}
    sc["args"] = {k: v for k, v in sc["args"].items() if k in args}
    return sc


class Minimiser:
    def __init__(self, replay, target_class, budget_s=60, max_replays=500):
        self.replay = replay
        self.target = target_class
        self.deadline = time.time() + budget_s
        self.max_replays = max_replays
        self.n_replays = 0
        self.last_hit = None

    def fails(self, sc, ops):
        if time.time() > self.deadline or self.n_replays >= self.max_replays:
            return False
        self.n_replays += 1
        if self.target is None:  # custom predicate (I5: two interpreters disagree)
            hit = self.replay(sc, ops)
            if hit:
                self.last_hit = hit
            return bool(hit)
        res = self.replay(sc, ops)
        if res.get("status") != "violation":
            return False
        for v in res["violations"]:
            feat = findings.features(v, sc, res.get("events"))
            if findings.violation_class(feat) == self.target:
                self.last_hit = (v, res)
                return True
        return False

    def ddmin(self, sc, ops):
        n = 2
        while len(ops) >= 2:
            chunk = max(1, len(ops) // n)
            reduced = False
            for start in range(0, len(ops), chunk):
                cand = prune_dangling(ops[:start] + ops[start + chunk:])
                if len(cand) < len(ops) and cand and self.fails(sc, cand):
                    ops = cand
                    n = max(n - 1, 2)
                    reduced = True
                    break
            if not reduced:
                if chunk == 1:
                    break
                n = min(len(ops), n * 2)
            if time.time() > self.deadline:
                break
        return ops

    def shrink_transforms(self, sc, ops):
        for aid in sorted(sc["args"]):
            ad = sc["args"][aid]
            if ad["kind"] != "transforms" or "json" not in ad:
                continue
            changed = True
            while changed and time.time() < self.deadline:
                changed = False
                t = json.loads(ad["json"])
                for cand in _json_deletions(t):
                    sc2 = copy.deepcopy(sc)
                    sc2["args"][aid]["json"] = json.dumps(cand, separators=(",", ":"))
                    if self.fails(sc2, ops):
                        sc = sc2
                        ad = sc["args"][aid]
                        changed = True
                        break
        return sc

    def shrink_knobs(self, sc, ops):
        for key, val in (("warnings", "ignore"),):
            if sc["knobs"].get(key) != val:
                sc2 = copy.deepcopy(sc)
                sc2["knobs"][key] = val
                if self.fails(sc2, ops):
                    sc = sc2
        for aid in sorted(sc["args"]):
            ad = sc["args"][aid]
            if ad["kind"] == "response":
                if ad.get("form", "asis") != "asis":
                    sc2 = copy.deepcopy(sc)
                    sc2["args"][aid]["form"] = "asis"
                    if self.fails(sc2, ops):
                        sc = sc2
                if sc["args"][aid].get("perturb"):
                    sc2 = copy.deepcopy(sc)
                    sc2["args"][aid]["perturb"] = [p for p in ad["perturb"] if p[0] == "refresh"]
                    if not sc2["args"][aid]["perturb"]:
                        del sc2["args"][aid]["perturb"]
                    if self.fails(sc2, ops):
                        sc = sc2
        for sid in sorted(sc["specs"]):
            for key, val in (("population", 1000), ("min_base", 0)):
                if sc["specs"][sid].get(key) != val:
                    sc2 = copy.deepcopy(sc)
                    sc2["specs"][sid][key] = val
                    if self.fails(sc2, ops):
                        sc = sc2
        return sc

    def simplify_ops(self, sc, ops):
        """Prefer shorter paths / PROBE-free forms: try replacing call args by simpler ones."""
        return ops

    def shortest_failing_prefix(self, sc, ops):
        """Long histories (marathons): bisect on the prefix length before anything finer."""
        lo, hi = 1, len(ops)  # invariant: ops[:hi] fails
        while hi - lo > max(8, len(ops) // 200) and time.time() < self.deadline:
            mid = (lo + hi) // 2
            cand = prune_dangling(ops[:mid])
            if self.fails(sc, cand):
                hi = mid
            else:
                lo = mid
        return prune_dangling(ops[:hi])

    def run(self, sc, ops, step):
        if step is not None and step >= 0:
            cut = prune_dangling(ops[: step + 1])
            if self.fails(sc, cut):
                ops = cut
        if len(ops) > 400:
            self.deadline = max(self.deadline, time.time() + 150)
            ops = self.shortest_failing_prefix(sc, ops)
        ops = self.ddmin(sc, ops)
        sc = strip_unused(sc, ops)
        if not self.fails(sc, ops):  # stripping must be behaviour-preserving
            return None
        sc = self.shrink_transforms(sc, ops)
        sc = self.shrink_knobs(sc, ops)
        ops = self.ddmin(sc, ops)
        sc = strip_unused(sc, ops)
        if not self.fails(sc, ops):
            return None
        return sc, ops, self.last_hit


def _json_deletions(t, depth=0):
    """Candidate simplifications of a JSON value: delete one key / one list item."""
    if isinstance(t, dict):
        for k in sorted(t):
            c = dict(t)
            del c[k]
            yield c
        if depth < 4:
            for k in sorted(t):
                for sub in _json_deletions(t[k], depth + 1):
                    c = dict(t)
                    c[k] = sub
                    yield c
    elif isinstance(t, list) and len(t) > 0:
        for i in range(len(t)):
            yield t[:i] + t[i + 1:]
        if depth < 4:
            for i in range(len(t)):
                for sub in _json_deletions(t[i], depth + 1):
                    yield t[:i] + [sub] + t[i + 1:]
