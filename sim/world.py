"""The executor: performs one operation against the real library and records the event.

Runs only inside forked children (history child H, oracle child O, replay children).
The worker parent never calls anything in here that touches cr.cube objects.
"""

import copy
import json

import numpy as np

from . import model
from .digest import _ADDR, json_digest, observe

ENUMS = None


def _enum(ref):
    global ENUMS
    if ENUMS is None:
        import cr.cube.enums as E

        ENUMS = E
    return getattr(getattr(ENUMS, ref[0]), ref[1])


class PathError(Exception):
    """A path that cannot be followed because an op list was edited (minimiser)."""


def decode_arg(a, get_arg):
    if isinstance(a, dict) and "enum" in a:
        return _enum(a["enum"])
    if isinstance(a, dict) and "arg" in a:
        obj = get_arg(a["arg"])
        for k in a.get("keys", []):
            obj = obj.get(k, {}) if isinstance(obj, dict) else {}
        return obj
    if isinstance(a, dict) and "lit" in a:
        return json.loads(a["lit"])
    return a


def resolve(root, path, get_arg):
    """Follow `path` from `root`; return the value or raise what the library raises."""
    obj = root
    for seg in path:
        if isinstance(seg, str):
            obj = getattr(obj, seg)
        elif isinstance(seg, int):
            obj = obj[seg]
        elif isinstance(seg, dict) and "call" in seg:
            fn = getattr(obj, seg["call"])
            obj = fn(*[decode_arg(a, get_arg) for a in seg.get("args", [])])
        elif isinstance(seg, dict) and "repr" in seg:
            obj = _ADDR.sub("0x?", repr(obj))
        else:
            raise PathError("bad path segment %r" % (seg,))
    return obj


def path_arg_ids(path):
    out = []
    for seg in path:
        if isinstance(seg, dict) and "call" in seg:
            for a in seg.get("args", []):
                if isinstance(a, dict) and "arg" in a:
                    out.append(a["arg"])
    return out


def under_ambient(ambient, fn):
    """F6: perform a read while the HOST is in an unusual but legal state - little stack left,
    or numpy told to raise on floating-point errors. What the read itself returns then may
    legitimately differ (it may fail); what matters is that it leaves nothing behind."""
    if not ambient:
        return fn()
    if "errstate" in ambient:
        import numpy

        with numpy.errstate(all=ambient["errstate"]):
            return fn()
    if "deep" in ambient:
        import sys

        depth, f = 0, sys._getframe()
        while f is not None:
            depth += 1
            f = f.f_back
        extra = sys.getrecursionlimit() - int(ambient["deep"]) - depth - 2

        def rec(n):
            if n <= 0:
                return fn()
            return rec(n - 1)

        return rec(max(extra, 0))
    return fn()


def attempt(fn):
    """Run fn(); exceptions raised by the library are outcomes, not harness errors."""
    try:
        return fn()
    except PathError:
        raise
    except (KeyboardInterrupt, SystemExit, MemoryError):
        raise
    except BaseException as e:  # noqa: B902 - the library may raise anything
        return e


# ------------------------------------------------------------------ argument diffs


def diff_classes(old, new, prefix="", out=None, limit=16):
    """Coarse description of how an argument object changed (indices generalised)."""
    if out is None:
        out = set()
    if len(out) >= limit:
        return out
    if isinstance(old, dict) and isinstance(new, dict):
        for k in new:
            if k not in old:
                out.add("%s+{%s}" % (prefix, _keyclass(k, prefix)))
        for k in old:
            if k not in new:
                out.add("%s-{%s}" % (prefix, _keyclass(k, prefix)))
        for k in old:
            if k in new and (old[k] is not new[k]) and old[k] != new[k]:
                diff_classes(old[k], new[k], "%s.%s" % (prefix, _keyclass(k, prefix)), out, limit)
    elif isinstance(old, list) and isinstance(new, list):
        if len(old) != len(new):
            out.add("%s:len%+d" % (prefix, len(new) - len(old)))
        for a, b in zip(old, new):
            if a is not b and a != b:
                diff_classes(a, b, prefix + "[*]", out, limit)
    else:
        if type(old) is not type(new):
            out.add("%s:%s->%s" % (prefix, type(old).__name__, type(new).__name__))
        else:
            out.add("%s:~" % prefix)
    return out


_STRUCTURAL = {
    "result", "dimensions", "type", "elements", "categories", "references", "value", "measures",
    "count", "data", "counts", "rows_dimension", "columns_dimension", "order", "element_ids",
    "fixed", "top", "bottom", "insertions", "subvar_alias", "datetime_value", "id", "alias",
    "name", "hide", "prune", "pairwise_indices", "metadata", "view", "transform", "element_id",
    "insertion_id", "smoother", "description", "fill", "subreferences", "missing",
}


def _keyclass(k, prefix):
    return k if k in _STRUCTURAL else "*"


# ------------------------------------------------------------------ the world


class World:
    def __init__(self, scenario):
        self.sc = scenario
        self.texts = model.arg_texts(scenario)
        self.shared = {}
        self.snap = {}
        self.arg_digest = {}

        def get_shared(aid):
            if aid not in self.shared:
                self.shared[aid] = model.materialise_arg(scenario, self.texts, aid, get_shared)
            return self.shared[aid]

        for aid in sorted(scenario["args"]):
            obj = get_shared(aid)
            self.snap[aid] = copy.deepcopy(obj)
            self.arg_digest[aid] = json_digest(obj)
        self.pristine_digest = dict(self.arg_digest)
        self.handles = {}  # "c0.h1" -> (spec_id, root, private_args or None)
        self.step = 0
        self.held = []  # arrays handed out by reads, kept the way a caller keeps them
        import warnings as _w

        self._env0 = (dict(np.geterr()), len(_w.filters), tuple(_w.filters[:3]))

    # -- argument access
    def fresh_family(self):
        """get_arg for a brand-new family of pristine copies (sharing relations kept)."""
        mine = {}

        def get_arg(aid):
            if aid not in mine:
                mine[aid] = model.materialise_arg(self.sc, self.texts, aid, get_arg)
            return mine[aid]

        return get_arg

    def _changed_args(self):
        chg = {}
        for aid, obj in self.shared.items():
            snap = self.snap[aid]
            if obj is snap:
                continue
            try:
                same = obj == snap
            except Exception:
                same = False
            if not same:
                d = json_digest(obj)
                if d != self.arg_digest[aid]:
                    chg[aid] = {"d": d, "diff": sorted(diff_classes(snap, obj))}
                    self.arg_digest[aid] = d
                self.snap[aid] = copy.deepcopy(obj)
        return chg

    # -- operations
    def do(self, op):
        kind = op[0]
        ev = {"i": self.step, "op": op}
        self.step += 1
        if kind == "CONSTRUCT":
            _k, cid, hid, sid = op
            spec = self.sc["specs"][sid]
            private = self.sc["clients"][cid].get("private", False)
            if private:
                get_arg = self.fresh_family()
            else:
                get_arg = self.shared.__getitem__
            root = attempt(lambda: model.construct(spec, get_arg))
            self.handles["%s.%s" % (cid, hid)] = (sid, root, get_arg)
            d, s, k, x = observe(root)
            ev.update(d=d, s=s, k=k, x=x, sid=sid, private=private)
        elif kind in ("READ", "READX"):
            cid, hid, path = op[1], op[2], op[3]
            ambient = op[4] if kind == "READX" else None
            key = "%s.%s" % (cid, hid)
            if key not in self.handles:
                raise PathError("no handle %s" % key)
            sid, root, get_arg = self.handles[key]
            v = attempt(lambda: under_ambient(ambient, lambda: resolve(root, path, get_arg)))
            d, s, k, x = observe(v)
            ev.update(d=d, s=s, k=k, x=x, sid=sid)
            if isinstance(v, (np.ndarray, list)) and len(self.held) < 400:
                self.held.append((ev["i"], sid, path, v, d, s))
        elif kind == "PROBE":
            _k, sid, path = op
            spec = self.sc["specs"][sid]
            get_arg = self.shared.__getitem__

            def probe():
                return resolve(model.construct(spec, get_arg), path, get_arg)

            v = attempt(probe)
            d, s, k, x = observe(v)
            ev.update(d=d, s=s, k=None, x=x, sid=sid)
        elif kind == "DROP":
            _k, cid, hid = op
            key = "%s.%s" % (cid, hid)
            if key not in self.handles:
                raise PathError("no handle %s" % key)
            del self.handles[key]
        elif kind == "RELOAD":
            _k, aid, mode = op
            obj = self.shared[aid]
            if not isinstance(obj, (dict, list)):
                ev["reload"] = "immutable"
            else:
                new, how = model.reload_object(obj, mode)
                self.shared[aid] = new
                self.snap[aid] = copy.deepcopy(new)
                ev["reload"] = how
                ev["edited"] = self.arg_digest[aid] != self.pristine_digest[aid]
        else:
            raise PathError("unknown op %r" % (op,))
        chg = self._changed_args()
        if chg:
            ev["chg"] = chg
        import warnings as _w

        env = (dict(np.geterr()), len(_w.filters), tuple(_w.filters[:3]))
        if env != self._env0:
            # not a violation by itself (C18 speaks of results), but the usual cause of one
            ev["env"] = {"numpy_errstate": env[0] if env[0] != self._env0[0] else None,
                         "warnings_filters_changed": env[1:] != self._env0[1:]}
            self._env0 = env
        return ev


def held_changes(world):
    """A value that was handed to the caller must still be what it was (it is the object a
    repeated read of a cached property returns): re-encode every array kept since."""
    out = []
    for step, sid, path, v, d, s in world.held:
        d2, s2, _k, _x = observe(v)
        if d2 != d:
            out.append({"i": step, "sid": sid, "path": path, "then": [d, s, None], "now": [d2, s2, None]})
    return out


def reference(scenario, texts, sid, path):
    """R(spec, path): pristine copies, brand-new object, exactly this one read."""
    spec = scenario["specs"][sid]
    mine = {}

    def get_arg(aid):
        if aid not in mine:
            mine[aid] = model.materialise_arg(scenario, texts, aid, get_arg)
        return mine[aid]

    def run():
        return resolve(model.construct(spec, get_arg), path, get_arg)

    return observe(attempt(run))


def reference_alt_form(scenario, texts, sid, path, shift):
    """I6: the same logical spec with every response supplied in another form."""
    spec = scenario["specs"][sid]
    mine = {}

    def get_arg(aid):
        if aid not in mine:
            ad = scenario["args"][aid]
            if ad["kind"] == "response":
                ad = {k: v for k, v in ad.items() if k != "view_of"}
                forms = model.FORMS
                if ad.get("form", "asis") in forms:  # malformed forms have no equivalent other form
                    ad["form"] = forms[(forms.index(ad.get("form", "asis")) + shift) % len(forms)]
            mine[aid] = model.materialise_arg(scenario, texts, aid, get_arg, argdef=ad)
        return mine[aid]

    def run():
        return resolve(model.construct(spec, get_arg), path, get_arg)

    return observe(attempt(run))
