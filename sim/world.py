"""The executor: performs one operation against the real library and records the event.

Runs only inside forked children (history child H, oracle child O, replay children).
The worker parent never calls anything in here that touches cr.cube objects.
"""

import copy
import json

import numpy as np

from . import model
from .digest import _ADDR, json_digest, observe

ENUMS = None


def _enum(ref):
    global ENUMS
    if ENUMS is None:
        import cr.cube.enums as E

        ENUMS = E
    return getattr(getattr(ENUMS, ref[0]), ref[1])


class PathError(Exception):
    """A path that cannot be followed because an op list was edited (minimiser)."""


def decode_arg(a, get_arg):
    if isinstance(a, dict) and "enum" in a:
        return _enum(a["enum"])
    if isinstance(a, dict) and "arg" in a:
        obj = get_arg(a["arg"])
        for k in a.get("keys", []):
            obj = obj.get(k, {}) if isinstance(obj, dict) else {}
        return obj
    if isinstance(a, dict) and "lit" in a:
        return json.loads(a["lit"])
    return a


def resolve(root, path, get_arg):
    """Follow `path` from `root`; return the value or raise what the library raises."""
    obj = root
    for seg in path:
        if isinstance(seg, str):
            obj = getattr(obj, seg)
        elif isinstance(seg, int):
            obj = obj[seg]
        elif isinstance(seg, dict) and "call" in seg:
            fn = getattr(obj, seg["call"])
            obj = fn(*[decode_arg(a, get_arg) for a in seg.get("args", [])])
        elif isinstance(seg, dict) and "repr" in seg:
            obj = _ADDR.sub("0x?", repr(obj))
        else:
            raise PathError("bad path segment %r" % (seg,))
    return obj


def path_arg_ids(path):
    out = []
    for seg in path:
        if isinstance(seg, dict) and "call" in seg:
            for a in seg.get("args", []):
                if isinstance(a, dict) and "arg" in a:
                    out.append(a["arg"])
    return out


class InjectedInterrupt(KeyboardInterrupt):
    """F7: the user's Ctrl-C / a kernel interrupt, landing between two lines of library code."""


def under_ambient(ambient, fn):
    """F6: perform a read while the HOST is in an unusual but legal state - little stack left,
    or numpy told to raise on floating-point errors. What the read itself returns then may
    legitimately differ (it may fail); what matters is that it leaves nothing behind."""
    if not ambient:
        return fn()
    if "errstate" in ambient:
        import numpy

        with numpy.errstate(all=ambient["errstate"]):
            return fn()
    if "interrupt" in ambient:
        import linecache
        import sys

        budget = [int(ambient["interrupt"])]

        def tracer(frame, event, arg):
            fn = frame.f_code.co_filename
            if "/cr/cube/" not in fn:
                return None

            def local(frame, event, arg):
                if event == "line":
                    # Never on a `with` line: its line events bracket the calls of __enter__ and
                    # __exit__, where CPython does not deliver a real KeyboardInterrupt either
                    # (bpo-29988); raising there from a trace function would skip __exit__ and
                    # leave e.g. np.errstate unrestored - an artefact of the injection, not
                    # something a user's Ctrl-C can do.
                    if linecache.getline(fn, frame.f_lineno).lstrip().startswith(("with ", "async with ")):
                        return local
                    budget[0] -= 1
                    if budget[0] <= 0:
                        sys.settrace(None)
                        raise InjectedInterrupt("injected after %s lines of library code" % ambient["interrupt"])
                return local

            return local

        sys.settrace(tracer)
        try:
            return fn()
        finally:
            sys.settrace(None)
    if "deep" in ambient:
        import sys

        depth, f = 0, sys._getframe()
        while f is not None:
            depth += 1
            f = f.f_back
        extra = sys.getrecursionlimit() - int(ambient["deep"]) - depth - 2

        def rec(n):
            if n <= 0:
                return fn()
            return rec(n - 1)

        return rec(max(extra, 0))
    return fn()


def attempt(fn):
    """Run fn(); exceptions raised by the library are outcomes, not harness errors."""
    try:
        return fn()
    except PathError:
        raise
    except InjectedInterrupt as e:
        return e
    except (KeyboardInterrupt, SystemExit, MemoryError):
        raise
    except BaseException as e:  # noqa: B902 - the library may raise anything
        return e


# ------------------------------------------------------------------ argument diffs


def diff_classes(old, new, prefix="", out=None, limit=16):
    """Coarse description of how an argument object changed (indices generalised)."""
    if out is None:
        out = set()
    if len(out) >= limit:
        return out
    if isinstance(old, dict) and isinstance(new, dict):
        for k in new:
            if k not in old:
                out.add("%s+{%s}" % (prefix, _keyclass(k, prefix)))
        for k in old:
            if k not in new:
                out.add("%s-{%s}" % (prefix, _keyclass(k, prefix)))
        for k in old:
            if k in new and (old[k] is not new[k]) and old[k] != new[k]:
                diff_classes(old[k], new[k], "%s.%s" % (prefix, _keyclass(k, prefix)), out, limit)
    elif isinstance(old, list) and isinstance(new, list):
        if len(old) != len(new):
            out.add("%s:len%+d" % (prefix, len(new) - len(old)))
        for a, b in zip(old, new):
            if a is not b and a != b:
                diff_classes(a, b, prefix + "[*]", out, limit)
    else:
        if type(old) is not type(new):
            out.add("%s:%s->%s" % (prefix, type(old).__name__, type(new).__name__))
        else:
            out.add("%s:~" % prefix)
    return out


_STRUCTURAL = {
    "result", "dimensions", "type", "elements", "categories", "references", "value", "measures",
    "count", "data", "counts", "rows_dimension", "columns_dimension", "order", "element_ids",
    "fixed", "top", "bottom", "insertions", "subvar_alias", "datetime_value", "id", "alias",
    "name", "hide", "prune", "pairwise_indices", "metadata", "view", "transform", "element_id",
    "insertion_id", "smoother", "description", "fill", "subreferences", "missing",
}


def _keyclass(k, prefix):
    return k if k in _STRUCTURAL else "*"


# ------------------------------------------------------------------ the world


class World:
    def __init__(self, scenario):
        self.sc = scenario
        self.texts = model.arg_texts(scenario)
        self.shared = {}
        self.snap = {}
        self.arg_digest = {}

        def get_shared(aid):
            if aid not in self.shared:
                self.shared[aid] = model.materialise_arg(scenario, self.texts, aid, get_shared)
            return self.shared[aid]

        for aid in sorted(scenario["args"]):
            obj = get_shared(aid)
            self.snap[aid] = copy.deepcopy(obj)
            self.arg_digest[aid] = json_digest(obj)
        self.pristine_digest = dict(self.arg_digest)
        self.handles = {}  # "c0.h1" -> (spec_id, root, private_args or None)
        self.step = 0
        self.held = []  # arrays handed out by reads, kept the way a caller keeps them
        self.detached = set()  # derived arguments whose sharing was broken by a RELOAD
        self.epoch = 0  # bumped by every caller edit (F8); references are built per epoch
        self.base_texts = {}
        self.epoch_texts = [dict(self.texts)]
        import warnings as _w

        self._env0 = (dict(np.geterr()), len(_w.filters), tuple(_w.filters[:3]))

    # -- argument access
    def _dependents(self, aid, ignore_detached=False):
        """`aid` plus every derived argument built on it."""
        out = {aid}
        grew = True
        while grew:
            grew = False
            for a, ad in self.sc["args"].items():
                if a in self.detached and not ignore_detached:
                    continue
                bases = ([ad["view_of"]] if "view_of" in ad else []) + ([ad["trim_of"]] if "trim_of" in ad else []) + (
                    model.compose_refs(ad["compose"]) if "compose" in ad else [])
                if a not in out and set(bases) & out:
                    out.add(a)
                    grew = True
        return out

    def fresh_family(self):
        """get_arg for a brand-new family of pristine copies (sharing relations kept)."""
        mine = {}

        def get_arg(aid):
            if aid not in mine:
                mine[aid] = model.materialise_arg(self.sc, self.texts, aid, get_arg)
            return mine[aid]

        return get_arg

    def _changed_args(self):
        chg = {}
        for aid, obj in self.shared.items():
            snap = self.snap[aid]
            if obj is snap:
                continue
            try:
                same = obj == snap
            except Exception:
                same = False
            if not same:
                d = json_digest(obj)
                if d != self.arg_digest[aid]:
                    chg[aid] = {"d": d, "diff": sorted(diff_classes(snap, obj))}
                    self.arg_digest[aid] = d
                self.snap[aid] = copy.deepcopy(obj)
        return chg

    # -- operations
    def do(self, op):
        kind = op[0]
        ev = {"i": self.step, "op": op}
        self.step += 1
        if kind == "CONSTRUCT":
            _k, cid, hid, sid = op
            spec = self.sc["specs"][sid]
            private = self.sc["clients"][cid].get("private", False)
            if private:
                get_arg = self.fresh_family()
            else:
                get_arg = self.shared.__getitem__
            root = attempt(lambda: model.construct(spec, get_arg))
            self.handles["%s.%s" % (cid, hid)] = (sid, root, get_arg, [], self.epoch)
            d, s, k, x = observe(root)
            ev.update(d=d, s=s, k=k, x=x, sid=sid, private=private)
        elif kind in ("READ", "READX"):
            cid, hid, path = op[1], op[2], op[3]
            ambient = op[4] if kind == "READX" else None
            key = "%s.%s" % (cid, hid)
            if key not in self.handles:
                raise PathError("no handle %s" % key)
            sid, root, get_arg, prefix, h_epoch = self.handles[key]
            v = attempt(lambda: under_ambient(ambient, lambda: resolve(root, path, get_arg)))
            d, s, k, x = observe(v)
            ev.update(d=d, s=s, k=k, x=x, sid=sid)
            if h_epoch:
                ev["v"] = h_epoch  # the content the object was built from (a private client's
                # copies, and shared arguments no edit has touched since, are of that epoch)
            if prefix:
                ev["full"] = prefix + path  # the path from the spec's root, for the reference
            if isinstance(v, (np.ndarray, list)) and len(self.held) < 400:
                self.held.append((ev["i"], sid, path, v, d, s))
        elif kind == "PROBE":
            _k, sid, path = op
            spec = self.sc["specs"][sid]
            get_arg = self.shared.__getitem__

            def probe():
                return resolve(model.construct(spec, get_arg), path, get_arg)

            v = attempt(probe)
            d, s, k, x = observe(v)
            ev.update(d=d, s=s, k=None, x=x, sid=sid)
        elif kind == "EDIT":
            # F8: the caller edits one of ITS OWN argument objects in place between renders.
            # Every object built on it is let go first (the caller re-renders); what is built
            # afterwards must equal a fresh evaluation on pristine copies of the EDITED content.
            _k, aid, edit = op
            obj = self.shared[aid]
            ad = self.sc["args"][aid]
            if not isinstance(obj, dict) or (aid not in self.detached and any(k in ad for k in ("view_of", "compose", "trim_of"))):
                ev["edit"] = "skipped"
            else:
                users = self._dependents(aid)
                # objects built before a RELOAD may still wrap the old, shared objects: let go of
                # everything that was EVER derived from the edited argument
                ever = self._dependents(aid, ignore_detached=True)
                dropped = [k for k, h in self.handles.items()
                           if set(model.spec_arg_ids(self.sc["specs"][h[0]])) & ever]
                for k in dropped:
                    del self.handles[k]
                import gc

                gc.collect()
                model.apply_edit(obj, edit)
                self.base_texts[aid] = json.dumps(model.apply_edit(json.loads(self.texts[aid]), edit))
                self.texts = model.arg_texts(self.sc, self.base_texts)
                if self.detached:
                    self.texts["__detached__"] = sorted(self.detached)
                self.epoch += 1
                self.epoch_texts.append(dict(self.texts))
                for a in users:  # the caller's own edit is not an edit by the library
                    if a in self.shared:
                        self.snap[a] = copy.deepcopy(self.shared[a])
                        self.arg_digest[a] = json_digest(self.shared[a])
                ev["edit"] = "applied"
                ev["dropped"] = sorted(dropped)
        elif kind == "HOLD":
            # the client keeps an object a read handed out (a partition, a dimension, a pairwise
            # test object ...) as a handle of its own, independent of the cube it came from
            _k, cid, hid, src, path = op
            skey = "%s.%s" % (cid, src)
            if skey not in self.handles:
                raise PathError("no handle %s" % skey)
            sid, root, get_arg, prefix, h_epoch = self.handles[skey]
            obj = attempt(lambda: resolve(root, path, get_arg))
            if isinstance(obj, BaseException):
                raise PathError("cannot hold: %r" % (obj,))
            self.handles["%s.%s" % (cid, hid)] = (sid, obj, get_arg, prefix + path, h_epoch)
            d, s, k, x = observe(obj)
            ev.update(d=d, s=s, k=k, x=x, sid=sid)
        elif kind == "DROP":
            _k, cid, hid = op
            key = "%s.%s" % (cid, hid)
            if key not in self.handles:
                raise PathError("no handle %s" % key)
            del self.handles[key]
            import gc

            gc.collect()  # whatever was only reachable through the dropped object is gone now
        elif kind == "RELOAD":
            _k, aid, mode = op
            obj = self.shared[aid]
            family = self._dependents(aid, ignore_detached=True)
            derived = any(k in self.sc["args"][aid] for k in ("view_of", "compose", "trim_of"))
            if not isinstance(obj, (dict, list)):
                ev["reload"] = "immutable"
            elif derived or len(family) > 1:
                # persisting one member of a family of arguments that share sub-objects would
                # leave the others half attached; the model keeps such families whole
                ev["reload"] = "skipped (argument shares structure with others)"
            else:
                new, how = model.reload_object(obj, mode)
                # persistence breaks sharing: a derived argument that is loaded back is a plain
                # copy from now on, and arguments derived from `aid` keep wrapping the OLD object
                for a in self._dependents(aid):
                    ad = self.sc["args"][a]
                    if a != aid or any(k in ad for k in ("view_of", "compose", "trim_of")):
                        self.detached.add(a)
                        self.base_texts[a] = self.texts[a]
                self.shared[aid] = new
                self.snap[aid] = copy.deepcopy(new)
                ev["reload"] = how
                ev["edited"] = self.arg_digest[aid] != self.pristine_digest[aid]
        else:
            raise PathError("unknown op %r" % (op,))
        if self.epoch and "v" not in ev and kind in ("CONSTRUCT", "PROBE"):
            ev["v"] = self.epoch
        chg = self._changed_args()
        if chg:
            ev["chg"] = chg
        import warnings as _w

        env = (dict(np.geterr()), len(_w.filters), tuple(_w.filters[:3]))
        if env != self._env0:
            # not a violation by itself (C18 speaks of results), but the usual cause of one
            ev["env"] = {"numpy_errstate": env[0] if env[0] != self._env0[0] else None,
                         "warnings_filters_changed": env[1:] != self._env0[1:]}
            self._env0 = env
        return ev


def held_changes(world):
    """A value that was handed to the caller must still be what it was (it is the object a
    repeated read of a cached property returns): re-encode every array kept since."""
    out = []
    for step, sid, path, v, d, s in world.held:
        d2, s2, _k, _x = observe(v)
        if d2 != d:
            out.append({"i": step, "sid": sid, "path": path, "then": [d, s, None], "now": [d2, s2, None]})
    return out


def reference(scenario, texts, sid, path):
    """R(spec, path): pristine copies, brand-new object, exactly this one read."""
    spec = scenario["specs"][sid]
    mine = {}

    def get_arg(aid):
        if aid not in mine:
            mine[aid] = model.materialise_arg(scenario, texts, aid, get_arg)
        return mine[aid]

    def run():
        return resolve(model.construct(spec, get_arg), path, get_arg)

    return observe(attempt(run))


def reference_alt_form(scenario, texts, sid, path, shift):
    """I6: the same logical spec with every response supplied in another form."""
    spec = scenario["specs"][sid]
    mine = {}

    def get_arg(aid):
        if aid not in mine:
            ad = scenario["args"][aid]
            if ad["kind"] == "response":
                ad = {k: v for k, v in ad.items() if k != "view_of"}
                forms = model.FORMS
                if ad.get("form", "asis") in forms:  # malformed forms have no equivalent other form
                    ad["form"] = forms[(forms.index(ad.get("form", "asis")) + shift) % len(forms)]
            mine[aid] = model.materialise_arg(scenario, texts, aid, get_arg, argdef=ad)
        return mine[aid]

    def run():
        return resolve(model.construct(spec, get_arg), path, get_arg)

    return observe(attempt(run))
