"""MANIFEST.setup_cmd: nothing to build; verify the toolchain the checks need is present."""
import os
import sys

repo = os.environ.get("VERIF_REPO", "/repo")
sys.path.insert(0, os.path.join(repo, "src"))
import numpy  # noqa
import scipy  # noqa

import cr  # noqa

cr.__path__ = [os.path.join(os.path.realpath(repo), "src", "cr")]
import cr.cube  # noqa

here = os.path.dirname(os.path.dirname(os.path.abspath(__file__)))
n = len([f for f in os.listdir(os.path.join(here, "corpus")) if f.endswith(".json")])
assert n > 200, "corpus missing"
print("setup ok: python %s numpy %s scipy %s cr.cube %s corpus %d files" % (
    sys.version.split()[0], numpy.__version__, scipy.__version__, os.path.dirname(cr.cube.__file__), n))
