"""Public read surface of cr.cube, obtained by reflection (DESIGN 3.4).

Importing the modules and looking at class dictionaries executes no library logic
beyond module import, so the worker parent stays "pristine" (DESIGN 3.7).
"""

import importlib
import inspect
import pkgutil


def _iter_modules():
    import cr.cube as root

    yield root
    for m in pkgutil.walk_packages(root.__path__, "cr.cube."):
        yield importlib.import_module(m.name)


def qualname(cls):
    mod = cls.__module__
    if mod.startswith("cr.cube."):
        mod = mod[len("cr.cube."):]
    return "%s.%s" % (mod, cls.__name__)


def build_surface():
    """{qualified class name: {"props": [...], "methods": {name: n_required_args}}}"""
    from cr.cube.util import lazyproperty

    surface = {}
    for mod in _iter_modules():
        for _name, cls in sorted(vars(mod).items()):
            if not inspect.isclass(cls) or cls.__module__ != mod.__name__:
                continue
            props, methods = [], {}
            for n in sorted(dir(cls)):
                if n.startswith("_"):
                    continue
                try:
                    a = inspect.getattr_static(cls, n)
                except AttributeError:
                    continue
                if isinstance(a, (lazyproperty, property)):
                    props.append(n)
                elif inspect.isfunction(a):
                    try:
                        sig = inspect.signature(a)
                        req = sum(
                            1
                            for p in list(sig.parameters.values())[1:]
                            if p.default is inspect.Parameter.empty
                            and p.kind in (p.POSITIONAL_ONLY, p.POSITIONAL_OR_KEYWORD)
                        )
                    except (TypeError, ValueError):
                        req = -1
                    methods[n] = req
            surface[qualname(cls)] = {"props": props, "methods": methods}
    return surface


# Methods the scheduler knows how to call, with an argument-template tag. Any other
# public method found by reflection is listed in the evidence as "uncalled".
CALL_TEMPLATES = {
    # inflate() builds a new Cube and (since the KF-2 repair) leaves its response alone, so a
    # client may call it at any point of a cube's life and as often as it likes
    "cube.Cube": {"inflate": "noargs"},
    "cubepart._Slice": {
        "row_order": "fmt",
        "column_order": "fmt",
        "pairwise_significance_p_vals": "colidx",
        "pairwise_significance_t_stats": "colidx",
        "pairwise_significance_means_p_vals": "colidx",
        "pairwise_significance_means_t_stats": "colidx",
    },
    "cubepart._Strand": {"row_order": "fmt"},
    "dimension.Dimension": {
        "translate_element_id": "elref",
        "apply_transforms": "dimtransforms",
    },
    "dimension.Elements": {"get_by_id": "elid"},
}

# Public methods that are deliberately NOT called directly (DESIGN 3.4): they are
# constructors-in-disguise used by CubeSet, exercised through CubeSet only.
NOT_CALLED = {
    "cube.Cube": ["augment_response"],
}

# Properties whose value is (a sequence of) cr.cube objects: reading them first
# opens up sub-paths.
EXPANDERS = {
    "cube.Cube": ["partitions", "dimensions"],
    "cube.CubeSet": ["partition_sets"],
    "cubepart._Slice": ["min_base_size_mask", "pairwise_significance_tests"],
    "cubepart._Strand": ["min_base_size_mask"],
    "dimension.Dimension": [
        "order_spec",
        "subtotals",
        "valid_elements",
        "all_elements",
        "subtotals_in_payload_order",
    ],
}
