"""One simulated run: history child H, oracle child O, comparison (DESIGN 3.7).

`execute_run` is called in a worker parent that has imported cr.cube but never executes
any of its logic; all library code runs in forked children.
"""

import faulthandler
import hashlib
import json
import os
import select
import signal
import sys
import time
import traceback
import warnings

from . import model, scenario as scen
from .scheduler import Scheduler, pkey
from .world import PathError, World, held_changes, path_arg_ids, reference, reference_alt_form

RUN_TIMEOUT_S = 120
AMBIENT_EXCEPTIONS = ("RecursionError", "FloatingPointError", "InjectedInterrupt")
WARNING_NAMES = ("RuntimeWarning", "UserWarning", "DeprecationWarning", "FutureWarning", "Warning")


class HarnessError(Exception):
    pass


# ------------------------------------------------------------------ fork plumbing


def fork_call(fn, timeout=RUN_TIMEOUT_S):
    """Run fn() in a forked child; return its JSON-able result. Raises HarnessError."""
    r, w = os.pipe()
    sys.stdout.flush()
    sys.stderr.flush()
    pid = os.fork()
    if pid == 0:
        code = 0
        try:
            os.close(r)
            signal.alarm(timeout)
            faulthandler.enable()
            try:
                devnull = os.open(os.devnull, os.O_WRONLY)
                os.dup2(devnull, 2)  # warnings printed in "default"/"always" mode
            except OSError:
                pass
            try:
                res = {"ok": fn()}
            except PathError as e:
                res = {"patherror": str(e)}
            except BaseException:  # noqa: B902
                res = {"harness_error": traceback.format_exc()[-4000:]}
            data = json.dumps(res).encode()
            with os.fdopen(w, "wb") as f:
                f.write(data)
        except BaseException:  # noqa: B902
            code = 3
        finally:
            os._exit(code)
    os.close(w)
    chunks = []
    deadline = time.time() + timeout + 5
    try:
        while True:
            left = deadline - time.time()
            if left <= 0:
                os.kill(pid, signal.SIGKILL)
                os.waitpid(pid, 0)
                raise HarnessError("child timed out after %ss" % timeout)
            ready, _, _ = select.select([r], [], [], left)
            if not ready:
                continue
            b = os.read(r, 1 << 16)
            if not b:
                break
            chunks.append(b)
    finally:
        os.close(r)
    _pid, status = os.waitpid(pid, 0)
    if not chunks:
        raise HarnessError("child died without result (status %r)" % (status,))
    res = json.loads(b"".join(chunks).decode())
    if "harness_error" in res:
        raise HarnessError("exception in child:\n" + res["harness_error"])
    if "patherror" in res:
        raise PathError(res["patherror"])
    return res["ok"]


def _set_environment(knobs):
    warnings.resetwarnings()
    warnings.simplefilter(knobs.get("warnings", "default"))


# ------------------------------------------------------------------ children


def history_child(sc, surface, ops=None):
    """Child H: execute a scheduled (or recorded) history against the real library."""
    _set_environment(sc["knobs"])
    world = World(sc)
    events = []
    state_hashes = []
    if ops is None:
        sched = Scheduler(sc, surface)
        executed = []
        for _ in range(sc["knobs"]["max_steps"]):
            op = sched.next_op()
            ev = world.do(op)
            sched.feed(op, ev)
            executed.append(op)
            events.append(ev)
            state_hashes.append(_state_hash(world, sched))
        ops = executed
    else:
        for op in ops:
            events.append(world.do(op))
    return {
        "ops": ops,
        "events": events,
        "held_changed": held_changes(world),
        "epoch_texts": world.epoch_texts if world.epoch else None,
        "state_hashes": state_hashes,
        "final_arg_digests": world.arg_digest,
        "pristine_arg_digests": world.pristine_digest,
    }


def _state_hash(world, sched):
    h = hashlib.sha1()
    for aid in sorted(world.arg_digest):
        h.update(world.arg_digest[aid].encode())
    for key in sorted(sched.handles):
        hv = sched.handles[key]
        h.update(hv.sid.encode())
        for rk in sorted(hv.read_keys):
            h.update(rk.encode())
        h.update(b"|")
    return int.from_bytes(h.digest()[:8], "big")


def rkey(sid, path, epoch=0):
    return "%s%s|%s" % (sid, ("@%d" % epoch) if epoch else "", pkey(path))


def oracle_child(sc, requests, alt_every=5, epoch_texts=None):
    """Child O: history-free reference for exactly the observed (spec, path[, epoch]) triples."""
    _set_environment(sc["knobs"])
    texts0 = model.arg_texts(sc)
    out = {}
    alt = {}
    # References must not depend on one another, so any order is as good as any other; the
    # REVERSE of the history's order is used so that state leaking from one evaluation into
    # the next (module-level memo, process-wide numpy/warnings state) contaminates H and O
    # differently and shows up as a mismatch (which I7 then attributes).
    for n, req in enumerate(reversed(list(requests))):
        sid, path = req[0], req[1]
        epoch = req[2] if len(req) > 2 else 0
        texts = epoch_texts[epoch] if (epoch and epoch_texts) else texts0
        d, s, _k, x = reference(sc, texts, sid, path)
        out[rkey(sid, path, epoch)] = [d, s, x]
        if alt_every and len(requests) <= 4:
            shifts = (1, 2, 3)  # replay of a minimised history: try every other form
        elif alt_every and n % alt_every == 0:
            shifts = (1 + (n // alt_every) % 3,)
        else:
            shifts = ()
        for shift in shifts:
            d2, s2, _k2, x2 = reference_alt_form(sc, texts, sid, path, shift)
            if d2 != d:
                alt[rkey(sid, path, epoch)] = [shift, d2, s2, x2]
                break
    return {"ref": out, "alt": alt}


# ------------------------------------------------------------------ comparison


def mismatch_kind(observed_exc, expected_exc):
    a = "exc" if observed_exc else "value"
    b = "exc" if expected_exc else "value"
    return "%s-vs-%s" % (a, b)


def path_family(path):
    for seg in reversed(path):
        if isinstance(seg, str):
            return seg
        if isinstance(seg, dict) and "call" in seg:
            return seg["call"] + "()"
        if isinstance(seg, dict) and "repr" in seg:
            return "repr()"
    return "<root>"


def compare(sc, hist, orc):
    """Invariants I1-I4, I6 over the recorded history. Returns list of violations."""
    violations = []
    ref = orc["ref"]
    seen_handle = {}
    seen_spec = {}
    for ev in hist["events"]:
        op = ev["op"]
        if op[0] in ("READ", "READX"):
            sid, path = ev["sid"], ev.get("full") or op[3]
            hkey = "%s.%s|%s" % (op[1], op[2], pkey(op[3]))
            if op[0] == "READX":
                # the hostile host state may legitimately change what THIS read returns (it may fail,
                # or take one of the library's documented fallbacks such as the default repr); only
                # what it leaves behind counts, and that is judged by every later read
                continue
        elif op[0] == "PROBE":
            sid, path = op[1], op[2]
            hkey = None
        else:
            continue
        key = rkey(sid, path, ev.get("v", 0))
        exp = ref.get(key)
        if exp is None:
            raise HarnessError("oracle has no entry for %s" % key)
        v = None
        if ev["d"] != exp[0]:
            v = {
                "invariant": "I3" if op[0] in ("READ", "READX") else "I4",
                "step": ev["i"],
                "sid": sid,
                "path": path,
                "observed": [ev["d"], ev["s"], ev.get("x")],
                "expected": exp,
                "kind": mismatch_kind(ev.get("x"), exp[2]),
                "family": path_family(path),
                "op": op[0],
                "epoch": ev.get("v", 0),
            }
        # I1 / I2 are implied by I3; they are recorded to localise without the oracle
        if hkey is not None:
            prev = seen_handle.get(hkey)
            if prev is not None and prev[0] != ev["d"] and v is not None:
                v["also"] = "I1 (same handle read at step %d gave %s)" % (prev[1], prev[2])
            seen_handle.setdefault(hkey, (ev["d"], ev["i"], ev["s"]))
        prev = seen_spec.get(key)
        if prev is not None and prev[0] != ev["d"] and v is not None and "also" not in v:
            v["also"] = "I2 (same spec read at step %d gave %s)" % (prev[1], prev[2])
        seen_spec.setdefault(key, (ev["d"], ev["i"], ev["s"]))
        if v is not None:
            violations.append(v)
    for hc in hist.get("held_changed", []):
        violations.append(
            {
                "invariant": "I1",
                "step": hc["i"],
                "sid": hc["sid"],
                "path": hc["path"],
                "observed": hc["now"],
                "expected": hc["then"],
                "kind": "value-vs-value",
                "family": path_family(hc["path"]),
                "op": "HELD (the array returned by this read was changed in place by a later step)",
            }
        )
    for key, (shift, d2, s2, x2) in sorted(orc.get("alt", {}).items()):
        sid, pk = key.split("|", 1)
        sid = sid.split("@", 1)[0]
        violations.append(
            {
                "invariant": "I6",
                "step": -1,
                "sid": sid,
                "path": json.loads(pk),
                "observed": [d2, s2, x2],
                "expected": ref[key],
                "kind": mismatch_kind(x2, ref[key][2]),
                "family": path_family(json.loads(pk)),
                "op": "FORM+%d" % shift,
            }
        )
    return violations


def requests_of(hist):
    seen, out = set(), []
    for ev in hist["events"]:
        op = ev["op"]
        if op[0] == "READ":
            sid, path = ev["sid"], ev.get("full") or op[3]
        elif op[0] == "PROBE":
            sid, path = op[1], op[2]
        else:
            continue
        e = ev.get("v", 0)
        k = rkey(sid, path, e)
        if k not in seen:
            seen.add(k)
            out.append((sid, path, e))
    return out


def log_digest(hist, orc):
    h = hashlib.sha1()
    for ev in hist["events"]:
        h.update(json.dumps([ev["op"], ev.get("d"), ev.get("chg")], sort_keys=True).encode())
    h.update(json.dumps(hist.get("held_changed", []), sort_keys=True).encode())
    h.update(json.dumps(orc["ref"], sort_keys=True).encode())
    ops = hashlib.sha1(json.dumps(hist["ops"], sort_keys=True).encode()).hexdigest()
    return h.hexdigest(), ops


# ------------------------------------------------------------------ statistics


def run_stats(sc, hist, violations):
    kn = sc["knobs"]
    ops = {}
    fired = {"F1": 0, "F2": 0, "F3": 0, "F4": 0, "F5": 0, "F6": 0, "F8": 0}
    probes = {}
    edits = 0
    edited_args = set()
    touched = {}  # arg id -> number of constructions on it
    partitions_read = {}
    inter = hashlib.sha1()
    bad_args = {a for a, ad in sc["args"].items() if ad["kind"] == "bad"}
    arg_digest = dict(hist["pristine_arg_digests"])
    pristine = hist["pristine_arg_digests"]
    dropped_after_edit = False

    def bump(name, n=1):
        probes[name] = probes.get(name, 0) + n

    failed_before = {}
    constructed_specs = set()
    for ev in hist["events"]:
        op = ev["op"]
        kind = op[0]
        ops[kind] = ops.get(kind, 0) + 1
        target = ""
        if kind == "READX":
            fired["F6"] += 1
            if ev.get("x") in AMBIENT_EXCEPTIONS:
                bump("read_failed_because_of_hostile_host_state (%s)" % ev["x"])
        if kind in ("READ", "READX"):
            hk = "%s.%s|%s" % (op[1], op[2], pkey(op[3]))
            if hk in failed_before:
                bump("failed_read_repeated_on_same_object")
                if failed_before[hk] in WARNING_NAMES:
                    bump("warning_as_error_read_repeated_on_same_object")
            if ev.get("x"):
                failed_before[hk] = ev["x"]
        if kind in ("CONSTRUCT", "PROBE") and not ev.get("private"):
            constructed_specs.add(op[3] if kind == "CONSTRUCT" else op[1])
        if kind in ("CONSTRUCT", "PROBE"):
            sid = op[3] if kind == "CONSTRUCT" else op[1]
            spec = sc["specs"][sid]
            aids = model.spec_arg_ids(spec)
            if not ev.get("private"):
                for a in aids:
                    touched[a] = touched.get(a, 0) + 1
                if any(arg_digest.get(a) != pristine.get(a) for a in aids):
                    bump("construct_on_edited_argument")
                if spec["type"] == "cubeset" and any(a in bad_args for a in aids):
                    bump("construct_poisoned_set")
            target = spec["type"]
        if kind in ("READ", "READX", "PROBE"):
            path = op[3] if kind in ("READ", "READX") else op[2]
            target = str(path_family(path))
            if ev.get("x"):
                head = ev["x"]
                if head in WARNING_NAMES:
                    fired["F5"] += 1
                else:
                    fired["F1"] += 1
                sid = ev.get("sid") or op[1]
                spec = sc["specs"][sid]
                if spec["type"] == "cubeset" and any(a in bad_args for a in model.spec_arg_ids(spec)):
                    fired["F4"] += 1
            if kind in ("READ", "READX") and len(path) >= 2 and path[0] in ("partitions", "partition_sets"):
                partitions_read.setdefault("%s.%s" % (op[1], op[2]), set()).add(
                    pkey([p for p in path[:3] if isinstance(p, int)])
                )
            if any(isinstance(s, dict) and s.get("call") == "apply_transforms" for s in path):
                bump("dimension_apply_transforms_called")
            if any(isinstance(s, dict) and s.get("call") == "translate_element_id" for s in path):
                bump("translate_element_id_called")
        if kind == "HOLD":
            bump("client_kept_a_handed_out_object_as_its_own_handle")
        if kind == "EDIT" and ev.get("edit") == "applied":
            fired["F8"] = fired.get("F8", 0) + 1
        if kind == "DROP":
            fired["F2"] += 1
            if edited_args:
                bump("drop_after_edit")
        if kind == "RELOAD":
            if ev.get("reload") not in (None, "immutable") and not str(ev.get("reload")).startswith("skipped"):
                fired["F3"] += 1
                if ev.get("edited"):
                    bump("reload_of_edited_argument")
                if ev.get("reload") == "deepcopy-fallback":
                    bump("edited_argument_not_json_serialisable")
        if ev.get("env"):
            bump("process_wide_state_left_changed_by_a_step (numpy errstate / warnings filters)")
        if ev.get("chg"):
            edits += 1
            for a, c in ev["chg"].items():
                edited_args.add(a)
                arg_digest[a] = c["d"]
                if sc["args"].get(a, {}).get("kind") == "transforms":
                    bump("a caller-owned TRANSFORMS object was edited in place")
                    for dc in c["diff"][:3]:
                        bump("transforms edit: " + dc[:80])
                else:
                    known = ("subvar_alias", "datetime_value")
                    if any(not any(k in dc for k in known) for dc in c["diff"]):
                        bump("a caller-owned RESPONSE object was edited other than by adding subvar_alias/datetime_value")
                for dc in c["diff"]:
                    if "subvar_alias" in dc:
                        bump("edit:response+subvar_alias")
                    elif "datetime_value" in dc:
                        bump("edit:response+datetime_value")
                    elif "element_ids" in dc or ".top" in dc or ".bottom" in dc:
                        bump("edit:transforms.order ids rewritten")
                        if "NoneType" in dc:
                            bump("edit:stale order id became null")
                    elif ".elements" in dc and ("rows_dimension" in dc or "columns_dimension" in dc or dc.startswith(".elements")):
                        bump("edit:transforms.elements re-keyed")
                    elif "dimensions:len" in dc:
                        bump("edit:response.dimensions inserted (inflate)")
                    elif "counts" in dc or ".data" in dc:
                        bump("edit:response counts replaced (augment)")
        inter.update(("%s/%s/%s;" % (op[1] if kind in ("CONSTRUCT", "READ", "READX", "DROP") else "-", kind, target)).encode())
    if kn["warnings"] == "error":
        bump("runs_with_warnings_as_errors")
    # sharing actually exercised (not merely configured): >= 2 different specs built on one argument
    users = {}
    for sid in constructed_specs:
        for a in model.spec_arg_ids(sc["specs"][sid]):
            users.setdefault(a, set()).add(sid)
    for a, sids in users.items():
        if len(sids) >= 2:
            k = sc["args"][a]["kind"]
            bump("%s_object_used_by_2+_different_specs" % k)
            types = {sc["specs"][x]["type"] for x in sids}
            if k == "response" and types == {"cubeset"}:
                bump("response_shared_by_2+_different_cube_sets")
            if k == "response" and len(types) == 2:
                bump("response_shared_by_cube_and_cube_set")
    nontrivial = any(
        (touched.get(a, 0) >= 2)
        or any(len(v) >= 2 for v in partitions_read.values())
        for a in edited_args
    )
    return {
        "steps": len(hist["events"]),
        "ops": ops,
        "fired": fired,
        "probes": probes,
        "edits": edits,
        "edited_args": len(edited_args),
        "topology": kn["topology"],
        "mode": kn.get("mode", "mixed"),
        "faults": kn["faults"],
        "warnings": kn["warnings"],
        "interleaving": int.from_bytes(inter.digest()[:8], "big"),
        "nontrivial": bool(nontrivial),
        "n_clients": len(sc["clients"]),
        "truncated": len(hist["events"]) >= kn["max_steps"],
    }


# ------------------------------------------------------------------ the run


def purity(sc, reqs, orc, violations, epoch_texts=None):
    """I7: the reference itself must not depend on what was evaluated before it.

    Child O evaluates many references one after the other in one process. Each mismatch
    found against O, and one sampled reference per run, is evaluated again alone in its own
    forked child; if that differs from what O reported, results depend on state that outlives
    the objects (module/class-level caches, id()-keyed registries, ...).
    """
    if not reqs:
        return []
    todo, seen = [], set()
    for v in violations[:3]:
        if v["invariant"] in ("I3", "I4") and v["sid"] is not None:
            todo.append((v["sid"], v["path"], v.get("epoch", 0)))
    todo.append(reqs[-1])
    todo.append(reqs[(sc.get("run_seed") or 0) % len(reqs)])
    out = []
    for sid, path, epoch in todo:
        key = rkey(sid, path, epoch)
        if key in seen:
            continue
        seen.add(key)
        alone = fork_call(lambda: oracle_child(sc, [(sid, path, epoch)], alt_every=0, epoch_texts=epoch_texts))["ref"][key]
        batch = orc["ref"][key]
        if alone[0] != batch[0]:
            out.append({
                "invariant": "I7", "step": -2, "sid": sid, "path": path,
                "observed": batch, "expected": alone,
                "kind": mismatch_kind(batch[2], alone[2]), "family": path_family(path), "op": "REFERENCE-IN-BATCH",
            })
    return out


def execute(sc, surface, ops=None, want_trace=False, max_viol=5):
    """Run scenario `sc` (scheduled, or replaying `ops`) and judge it."""
    hist = fork_call(lambda: history_child(sc, surface, ops))
    reqs = requests_of(hist)
    orc = fork_call(lambda: oracle_child(sc, reqs, epoch_texts=hist.get("epoch_texts")))
    violations = compare(sc, hist, orc)
    impure = purity(sc, reqs, orc, violations, hist.get("epoch_texts"))
    n_refs = len(reqs)
    if impure:
        # a contaminated reference makes I3 verdicts against it meaningless: report I7 first
        violations = impure + violations
    ld, od = log_digest(hist, orc)
    res = {
        "run_seed": sc["run_seed"],
        "status": "violation" if violations else "ok",
        "log_digest": ld,
        "ops_digest": od,
        "violations": violations[:max_viol],
        "n_violations": len(violations),
        "stats": dict(run_stats(sc, hist, violations), references=n_refs),
        "state_hashes": hist["state_hashes"],
    }
    if violations or want_trace:
        res["scenario"] = sc
        res["ops"] = hist["ops"]
        res["events"] = [
            {k: ev[k] for k in ("i", "op", "d", "s", "x", "sid", "full", "v", "edit", "dropped", "chg", "reload", "env") if k in ev} for ev in hist["events"]
        ]
    return res


def execute_seed(run_seed, tier_cfg, surface, want_trace=False):
    t0 = time.time()
    try:
        sc = scen.generate(run_seed, tier_cfg)
        res = execute(sc, surface, want_trace=want_trace)
    except HarnessError as e:
        res = {"run_seed": run_seed, "status": "harness_error", "error": str(e)[-3000:]}
    except Exception:
        res = {"run_seed": run_seed, "status": "harness_error", "error": traceback.format_exc()[-3000:]}
    res["wall_s"] = round(time.time() - t0, 4)
    return res


def execute_replay(sc, ops, surface):
    """Re-execute a recorded op list (no PRNG). `invalid` = the edited list cannot run."""
    t0 = time.time()
    try:
        res = execute(sc, surface, ops=ops, want_trace=True, max_viol=60)
    except PathError as e:
        res = {"run_seed": sc.get("run_seed"), "status": "invalid", "error": str(e)}
    except HarnessError as e:
        res = {"run_seed": sc.get("run_seed"), "status": "harness_error", "error": str(e)[-3000:]}
    except Exception:
        res = {"run_seed": sc.get("run_seed"), "status": "harness_error", "error": traceback.format_exc()[-3000:]}
    res["wall_s"] = round(time.time() - t0, 4)
    return res
