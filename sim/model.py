"""Argument objects, specs and constructors: the simulator's table of who owns what.

Pristine forms of every argument are kept as JSON *text* (immutable). A pristine copy is
always `json.loads(text)`; nothing is ever deep-copied from an object the library has
touched (DESIGN 3.2, seam 2).
"""

import copy
import json
import os
import random

HERE = os.path.dirname(os.path.abspath(__file__))
CORPUS_DIR = os.path.join(os.path.dirname(HERE), "corpus")

_text_cache = {}
_index = None


def corpus_index():
    global _index
    if _index is None:
        with open(os.path.join(CORPUS_DIR, "index.json")) as f:
            _index = json.load(f)
    return _index


def corpus_text(name):
    t = _text_cache.get(name)
    if t is None:
        with open(os.path.join(CORPUS_DIR, name)) as f:
            t = f.read()
        _text_cache[name] = t
    return t


# ------------------------------------------------------------------ synthetic inputs


def _text_dim(values, with_missing=True):
    els = [{"id": i, "missing": False, "value": v} for i, v in enumerate(values)]
    if with_missing:
        els.append({"id": -1, "missing": True, "value": {"?": -1}})
    return {
        "references": {"alias": "txt", "name": "Txt"},
        "type": {
            "class": "enum",
            "elements": els,
            "subtype": {"class": "text", "missing_reasons": {"No Data": -1}, "missing_rules": {}},
        },
    }


def synthetic_response(kind, params):
    """Small synthetic responses for the single-column-filter cube sets (T5)."""
    rnd = random.Random(params.get("seed", 0))
    letters = "ABCDEFGHIJ"
    if kind == "text_summary":
        n = params["n"]
        vals = list(letters[:n])
        counts = [rnd.randint(1, 9) for _ in vals] + [0]
        return {
            "result": {
                "counts": counts,
                "measures": {"count": {"data": list(counts), "n_missing": 0, "metadata": {}}},
                "dimensions": [_text_dim(vals)],
                "n": sum(counts),
                "missing": 0,
            }
        }
    if kind == "text_filter":
        n = params["n"]
        keep = params["keep"]  # indexes into the summary's values
        vals = [letters[i] for i in keep if i < n]
        counts = [rnd.randint(1, 9) for _ in vals] + [0]
        return {
            "result": {
                "is_single_col_cube": True,
                "counts": counts,
                "measures": {"count": {"data": list(counts), "n_missing": 0, "metadata": {}}},
                "dimensions": [_text_dim(vals)],
                "n": sum(counts),
                "missing": 0,
            }
        }
    if kind == "big_cat_x_cat":
        # larger than anything in the corpus (its biggest slice has 340 cells): n x m (x k) cells
        n, m, k = params["n"], params["m"], params.get("k", 0)

        def cat_dim(alias, size):
            cats = [{"id": i + 1, "missing": False, "name": "%s %d" % (alias, i + 1), "numeric_value": i + 1}
                    for i in range(size)]
            cats.append({"id": -1, "missing": True, "name": "No Data", "numeric_value": None})
            return {"references": {"alias": alias, "name": alias.title()},
                    "type": {"class": "categorical", "categories": cats, "ordinal": False}}

        dims = ([cat_dim("tabs", k)] if k else []) + [cat_dim("rowvar", n), cat_dim("colvar", m)]
        total = 1
        for d in dims:
            total *= len(d["type"]["categories"])
        counts = [rnd.randint(0, 60) for _ in range(total)]
        wcounts = [c * 1.25 for c in counts] if params.get("weighted") else list(counts)
        return {"result": {"dimensions": dims, "counts": counts,
                           "measures": {"count": {"data": wcounts, "n_missing": 0, "metadata": {}}},
                           "n": sum(counts), "missing": 0, "filtered": {"unweighted_n": sum(counts), "weighted_n": sum(wcounts)},
                           "unfiltered": {"unweighted_n": sum(counts), "weighted_n": sum(wcounts)}}}
    raise ValueError("unknown synthetic kind %r" % (kind,))


# ------------------------------------------------------------------ perturbations


def _inner(d):
    return d.get("value", d) if isinstance(d, dict) else d


def apply_perturbation(resp, p):
    """Edit a freshly parsed response dict according to one perturbation record."""
    kind = p[0]
    res = _inner(resp)["result"]
    if kind == "alias":  # ["alias", raw_dim_idx, elem_idx, new_alias]
        _k, di, ei, new = p
        el = res["dimensions"][di]["type"]["elements"][ei]
        el.setdefault("value", {})
        if isinstance(el["value"], dict):
            el["value"].setdefault("references", {})["alias"] = new
    elif kind == "noalias":  # ["noalias", raw_dim_idx, elem_idx]
        _k, di, ei = p
        el = res["dimensions"][di]["type"]["elements"][ei]
        if isinstance(el.get("value"), dict):
            el["value"].get("references", {}).pop("alias", None)
    elif kind == "refresh":  # ["refresh", k]: other counts, same metadata
        k = p[1]

        def bump(x, i):
            if isinstance(x, bool) or not isinstance(x, (int, float)):
                return x
            return x + ((i * 7 + k) % 5) if isinstance(x, int) else x * (1.0 + ((i + k) % 4) / 8.0)

        res["counts"] = [bump(x, i) for i, x in enumerate(res["counts"])]
        cnt = res.get("measures", {}).get("count")
        if cnt and isinstance(cnt.get("data"), list):
            cnt["data"] = [bump(x, i) for i, x in enumerate(cnt["data"])]
    elif kind == "dropref":  # ["dropref", measure]: remove metadata.references of a numeric measure
        m = res.get("measures", {}).get(p[1])
        if m and isinstance(m.get("metadata"), dict):
            m["metadata"].pop("references", None)
    elif kind == "bad_datetime":  # ["bad_datetime", raw_dim_idx, elem_idx]: one value in another precision
        _k, di, ei = p
        els = res["dimensions"][di]["type"].get("elements") or []
        if ei < len(els) and isinstance(els[ei].get("value"), str):
            v = els[ei]["value"]
            els[ei]["value"] = v[:10] if len(v) > 10 else v + "-01"
    elif kind == "resolution":  # ["resolution", raw_dim_idx, "2M"]: a rolled-up datetime resolution
        _k, di, resv = p
        sub = res["dimensions"][di]["type"].get("subtype")
        if isinstance(sub, dict):
            sub["resolution"] = resv
    elif kind == "infinity":  # ["infinity", measure, idx, sign]: a non-finite cell (JSON: Infinity)
        _k, mname, idx, sign = p
        m = res.get("measures", {}).get(mname)
        if m and isinstance(m.get("data"), list) and m["data"]:
            j = idx % len(m["data"])
            if isinstance(m["data"][j], (int, float)) and not isinstance(m["data"][j], bool):
                m["data"][j] = float("inf") * sign
    elif kind == "duplabel":  # ["duplabel", raw_dim_idx, i, j]: element j gets the label of element i
        _k, di, i, j = p
        t = res["dimensions"][di]["type"]
        els = t.get("categories") or t.get("elements") or []
        if i < len(els) and j < len(els):
            a, b = els[i], els[j]
            if "name" in a:
                b["name"] = a["name"]
            elif isinstance(a.get("value"), dict) and isinstance(b.get("value"), dict):
                name = (a["value"].get("references") or {}).get("name")
                b["value"].setdefault("references", {})["name"] = name
    elif kind == "typedef_order":  # ["typedef_order", raw_dim_idx, [ids in data order]]
        _k, di, order = p
        res["dimensions"][di]["type"]["order"] = order
    elif kind == "dimalias":  # ["dimalias", old_alias, new_alias]: another dataset's variable, same alias
        _k, old, new = p
        for dm in res["dimensions"]:
            refs = dm.get("references") or {}
            if refs.get("alias") == old:
                refs["alias"] = new
    elif kind == "mark_missing":  # ["mark_missing", raw_dim_idx, cat_idx]
        _k, di, ci = p
        cats = res["dimensions"][di]["type"].get("categories") or []
        if ci < len(cats):
            cats[ci]["missing"] = True
    elif kind == "numeric_values":  # ["numeric_values", raw_dim_idx, [v0, v1, ...]] (None = unset)
        _k, di, vals = p
        cats = res["dimensions"][di]["type"].get("categories") or []
        for cat, v in zip(cats, vals):
            cat["numeric_value"] = v
    elif kind == "cat_dates":  # ["cat_dates", raw_dim_idx]: make a categorical dimension a date series
        _k, di = p
        cats = res["dimensions"][di]["type"].get("categories") or []
        n = 0
        for cat in cats:
            if not cat.get("missing"):
                cat["date"] = "20%02d-%02d" % (20 + n // 12, 1 + n % 12)
                n += 1
    elif kind == "view_insertions":  # ["view_insertions", raw_dim_idx, [insertion dicts]]
        _k, di, ins = p
        refs = res["dimensions"][di].setdefault("references", {})
        view = refs.get("view") or {}
        view.setdefault("transform", {})["insertions"] = ins
        refs["view"] = view
    elif kind == "filter_stats":  # ["filter_stats", filtered_n, unfiltered_n]
        res["filtered"] = {"unweighted_n": p[1], "weighted_n": p[1]}
        res["unfiltered"] = {"unweighted_n": p[2], "weighted_n": p[2]}
    elif kind == "floatify":  # same numbers, other numeric type (1 -> 1.0): a refreshed export
        def fl(x):
            if isinstance(x, bool):
                return x
            if isinstance(x, int):
                return float(x)
            if isinstance(x, list):
                return [fl(y) for y in x]
            return x

        for dm in res["dimensions"]:
            t = dm.get("type", {})
            if t.get("class") == "enum" and t.get("subtype", {}).get("class") == "numeric":
                for el in t.get("elements", []):
                    if "value" in el:
                        el["value"] = fl(el["value"])
            for cat in t.get("categories", []) or []:
                if isinstance(cat.get("numeric_value"), int) and not isinstance(cat.get("numeric_value"), bool):
                    cat["numeric_value"] = float(cat["numeric_value"])
    elif kind == "dropref_all":  # no numeric measure carries references: default names apply
        for m in res.get("measures", {}).values():
            if isinstance(m, dict) and isinstance(m.get("metadata"), dict):
                m["metadata"].pop("references", None)
    elif kind == "single_col":  # mark as single-column filter cube
        res["is_single_col_cube"] = True
    else:
        raise ValueError("unknown perturbation %r" % (p,))


# ------------------------------------------------------------------ texts and objects


def trimmed_response(base, di, pos):
    """A NEW response with element `pos` of dimension `di` (and its data) left out, built the
    way an application derives one table from another: new lists, new counts, but the SAME
    element dicts and the SAME other dimension dicts as `base`."""
    import numpy as np

    inner = base.get("value", base)
    res = inner["result"]
    dims = res["dimensions"]

    def defs(d):
        t = d["type"]
        return t["categories"] if t.get("class") == "categorical" else t["elements"]

    shape = [len(defs(d)) for d in dims]
    n = 1
    for k in shape:
        n *= k

    def cut(data):
        a = np.empty(len(data), dtype=object)
        a[:] = data
        return np.delete(a.reshape(shape), pos, axis=di).ravel().tolist()

    tdim = dims[di]
    key = "categories" if tdim["type"].get("class") == "categorical" else "elements"
    new_dim = dict(tdim, type=dict(tdim["type"], **{key: [e for k, e in enumerate(defs(tdim)) if k != pos]}))
    new_res = dict(res, dimensions=[new_dim if k == di else d for k, d in enumerate(dims)])
    if isinstance(res.get("counts"), list) and len(res["counts"]) == n:
        new_res["counts"] = cut(res["counts"])
    measures = {}
    for name, m in (res.get("measures") or {}).items():
        if isinstance(m, dict) and isinstance(m.get("data"), list) and len(m["data"]) == n:
            measures[name] = dict(m, data=cut(m["data"]))
        # measures of another shape (overlaps, covariance) do not survive the trimming
    new_res["measures"] = measures
    new_inner = dict(inner, result=new_res)
    return dict(base, value=new_inner) if "value" in base and base is not inner else new_inner


def apply_edit(obj, edit):
    """F8: what the CALLER does to its own argument between two renders (in place). Applied
    alike to the live shared object and to the pristine content the reference is built from."""
    kind = edit[0]
    if kind == "hide":  # ["hide", axis, key]
        obj.setdefault(edit[1], {}).setdefault("elements", {})[edit[2]] = {"hide": True}
    elif kind == "prune":  # ["prune", axis, bool]
        obj.setdefault(edit[1], {})["prune"] = edit[2]
    elif kind == "order":  # ["order", axis, ids]
        obj.setdefault(edit[1], {})["order"] = {"type": "explicit", "element_ids": list(edit[2])}
    elif kind == "retitle":  # ["retitle", raw_dim_idx, name]
        dm = _inner(obj)["result"]["dimensions"][edit[1]]
        dm.setdefault("references", {})["name"] = edit[2]
    elif kind == "missing":  # ["missing", raw_dim_idx, cat_idx]
        cats = _inner(obj)["result"]["dimensions"][edit[1]]["type"].get("categories") or []
        if edit[2] < len(cats):
            cats[edit[2]]["missing"] = True
    else:
        raise ValueError("unknown edit %r" % (edit,))
    return obj


def arg_texts(scenario, base_texts=None):
    """Pristine JSON text per argument; derived arguments borrow from their bases.
    `base_texts` overrides the texts of base arguments (after caller edits, F8)."""
    args = scenario["args"]
    texts = {aid: (base_texts[aid] if base_texts and aid in base_texts else arg_text(ad))
             for aid, ad in args.items()
             if "view_of" not in ad and "compose" not in ad and "trim_of" not in ad}
    for aid, ad in args.items():
        if "view_of" in ad:
            texts[aid] = texts[ad["view_of"]]
        elif "trim_of" in ad:
            texts[aid] = json.dumps(trimmed_response(json.loads(texts[ad["trim_of"]]), ad["dim"], ad["drop"]))
    pending = [aid for aid, ad in args.items() if "compose" in ad]
    while pending:  # composed arguments may name other composed arguments
        progressed = False
        for aid in list(pending):
            if all(r in texts for r in compose_refs(args[aid]["compose"])):
                texts[aid] = json.dumps(_compose_text(args[aid]["compose"], texts))
                pending.remove(aid)
                progressed = True
        if not progressed:
            raise ValueError("cyclic composed arguments %r" % (pending,))
    if base_texts:
        # derived arguments that were detached from their bases (persisted and loaded back, or
        # left holding the old object when their base was) keep the content they had then
        for aid, t in base_texts.items():
            texts[aid] = t
    return texts


def materialise_arg(scenario, texts, aid, get_arg, argdef=None):
    """A new object for `aid`; derived arguments are built around the objects `get_arg`
    supplies for their bases, so that the sharing relation holds inside one family of
    objects (the shared world, a private client's copies, one reference evaluation)."""
    ad = argdef or scenario["args"][aid]
    if aid in (texts.get("__detached__") or ()):
        # persisted and loaded back (or left behind when its base was): a plain copy now
        if "view_of" in ad:
            return toggled_envelope(json.loads(texts[aid]))
        if "compose" in ad or "trim_of" in ad:
            return json.loads(texts[aid])
    if "view_of" in ad:
        base = get_arg(ad["view_of"])
        if isinstance(base, dict):
            return toggled_envelope(base)  # the SAME inner dict, wrapped or unwrapped
        return materialise(dict(ad, form="toggle"), texts[aid])
    if "trim_of" in ad:
        base = get_arg(ad["trim_of"])
        if isinstance(base, dict):
            return trimmed_response(base, ad["dim"], ad["drop"])
        return json.loads(texts[aid])
    if "compose" in ad:
        return _compose(ad["compose"], get_arg)
    return materialise(ad, texts[aid])


def _compose(tpl, get_arg):
    """Build a dict from a template whose string leaves name other arguments (shared objects)."""
    if isinstance(tpl, str):
        return get_arg(tpl)
    if isinstance(tpl, dict) and "lit" in tpl and len(tpl) == 1:
        return json.loads(tpl["lit"])
    return {k: _compose(v, get_arg) for k, v in tpl.items()}


def compose_refs(tpl):
    if isinstance(tpl, str):
        return [tpl]
    if isinstance(tpl, dict) and "lit" in tpl and len(tpl) == 1:
        return []
    out = []
    for v in tpl.values():
        out.extend(compose_refs(v))
    return out


def _compose_text(tpl, texts):
    if isinstance(tpl, str):
        return json.loads(texts[tpl])
    if isinstance(tpl, dict) and "lit" in tpl and len(tpl) == 1:
        return json.loads(tpl["lit"])
    return {k: _compose_text(v, texts) for k, v in sorted(tpl.items())}


def arg_text(argdef):
    """Pristine JSON text of the logical content of an argument (None for 'bad')."""
    kind = argdef["kind"]
    if kind == "transforms":
        return argdef["json"]
    if kind == "response":
        if "corpus" in argdef:
            text = corpus_text(argdef["corpus"])
            if not argdef.get("perturb"):
                return text
            d = json.loads(text)
        else:
            d = synthetic_response(argdef["synthetic"][0], argdef["synthetic"][1])
        for p in argdef.get("perturb", []):
            apply_perturbation(d, p)
        return json.dumps(d, separators=(",", ":"))
    if kind == "bad":
        return None
    if kind == "nparray":
        return json.dumps(argdef["value"])
    raise ValueError(kind)


def toggled_envelope(d):
    if isinstance(d, dict) and "value" in d and isinstance(d["value"], dict) and "result" in d["value"]:
        return d["value"]
    return {"element": "shoji:view", "value": d}


def materialise(argdef, text):
    """A brand-new Python object for this argument, in its declared form."""
    kind = argdef["kind"]
    if kind == "nparray":  # a population handed over as a numpy value (0-d or one-element array)
        import numpy as np

        v = json.loads(text)
        return np.array(v, dtype=np.float64) if argdef.get("shape", "0d") == "0d" else np.array([v], dtype=np.float64)
    if kind == "bad":
        return {
            "not-json": "{this is not json",
            "int": 5,
            "no-result": {"query": {}},
            "list": [1, 2, 3],
            "none": None,
        }[argdef["what"]]
    if kind == "transforms":
        return json.loads(text)
    form = argdef.get("form", "asis")
    if form == "json":
        return text
    if form == "double-json":  # JSON text of JSON text: parses, but not to a dict
        return json.dumps(text)
    if form == "json-array":  # a tab-book list handed to Cube by mistake
        return "[%s]" % text
    d = json.loads(text)
    if form == "asis":
        return d
    if form == "toggle":
        return toggled_envelope(d)
    if form == "json-toggle":
        return json.dumps(toggled_envelope(d))
    raise ValueError("unknown form %r" % (form,))


FORMS = ("asis", "json", "toggle", "json-toggle")


def reload_object(obj, mode):
    """F3: what the application gets back after persisting its (edited) object."""
    if mode == "json":
        try:
            return json.loads(json.dumps(obj)), "json"
        except (TypeError, ValueError):
            return copy.deepcopy(obj), "deepcopy-fallback"
    return copy.deepcopy(obj), "deepcopy"


def _pop_arg(spec):
    p = spec.get("population")
    return [p["arg"]] if isinstance(p, dict) and "arg" in p else []


def spec_arg_ids(spec):
    if spec["type"] == "cube":
        return [a for a in (spec["response"], spec.get("transforms")) if a] + _pop_arg(spec)
    out = []
    for r, t in spec["members"]:
        out.append(r)
        if t:
            out.append(t)
    return out + _pop_arg(spec)


def construct(spec, get_arg):
    """Build the Cube / CubeSet for `spec`; `get_arg(arg_id)` supplies the objects."""
    from cr.cube.cube import Cube, CubeSet

    if spec["type"] == "cube":
        kwargs = {}
        if spec.get("transforms"):
            kwargs["transforms"] = get_arg(spec["transforms"])
        if "population" in spec:
            p = spec["population"]
            kwargs["population"] = get_arg(p["arg"]) if isinstance(p, dict) and "arg" in p else p
        if "min_base" in spec:
            kwargs["mask_size"] = spec["min_base"]
        if spec.get("cube_idx") is not None:
            kwargs["cube_idx"] = spec["cube_idx"]
        return Cube(get_arg(spec["response"]), **kwargs)
    responses = [get_arg(r) for r, _t in spec["members"]]
    transforms = [get_arg(t) if t else {} for _r, t in spec["members"]]
    p = spec.get("population")
    if isinstance(p, dict) and "arg" in p:
        p = get_arg(p["arg"])
    return CubeSet(responses, transforms, p, spec.get("min_base", 0))
