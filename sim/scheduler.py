"""The seeded scheduler: decides, step by step, which client moves and what it does.

It learns the shape of the object tree only from the skeletons of earlier outcomes
(never by looking at the objects under test), sorts every collection before indexing
into it with the PRNG, and draws nothing outside `next_op` - so that the op sequence is
a pure function of (run_seed, scenario, code under test's object structure).
"""

import json
import random

from . import model
from .scenario import splitmix64
from .surface import CALL_TEMPLATES, EXPANDERS
from .transforms_gen import STALE, spellings

PARTITION_CLASSES = ("cubepart._Slice", "cubepart._Strand", "cubepart._Nub")


def pkey(path):
    return json.dumps(path, sort_keys=True, separators=(",", ":"))


class HandleView:
    def __init__(self, cid, hid, sid, root_cls):
        self.cid, self.hid, self.sid = cid, hid, sid
        self.nodes = {pkey([]): ([], root_cls)}  # object-valued paths discovered so far
        self.read_keys = set()

    def learn(self, path, skel):
        if not skel:
            return
        if "cls" in skel:
            self.nodes.setdefault(pkey(path), (list(path), skel["cls"]))
        for i, sub in enumerate(skel.get("seq") or []):
            if sub:
                self.learn(list(path) + [i], sub)


class Scheduler:
    def __init__(self, scenario, surface):
        self.sc = scenario
        self.surface = surface
        self.kn = scenario["knobs"]
        self.rnd = random.Random(splitmix64(scenario["run_seed"], 0x5C4ED01E))
        self.clients = sorted(scenario["clients"])
        self.spec_ids = sorted(scenario["specs"])
        self.shared_arg_ids = sorted(
            a for a, ad in scenario["args"].items() if ad["kind"] in ("response", "transforms")
        )  # RELOAD candidates (numpy scalars and malformed members are not persisted)
        self.handles = {}  # key -> HandleView
        self.by_client = {c: [] for c in self.clients}
        self.next_hid = {c: 0 for c in self.clients}
        self.history = []  # (key, path) of completed reads
        self.last_client = None
        self.last_changed = False
        self.steps = 0
        self.ref_pool = self._build_ref_pool()
        self.stats = {"ops": {}, "after_edit_faults": 0}

    # -- pools
    def _build_ref_pool(self):
        pool = list(STALE)
        ix = model.corpus_index()
        for aid in sorted(self.sc["args"]):
            ad = self.sc["args"][aid]
            if ad["kind"] == "response" and "corpus" in ad:
                for d in ix[ad["corpus"]]["dims"]:
                    for pos, el in enumerate(d["elements"][:6]):
                        pool.extend(spellings(d, el, pos))
        return pool

    # -- feedback from the executor
    def feed(self, op, ev):
        kind = op[0]
        self.last_changed = bool(ev.get("chg"))
        if kind == "CONSTRUCT":
            _k, cid, hid, sid = op
            key = "%s.%s" % (cid, hid)
            cls = (ev.get("k") or {}).get("cls") or "cube.Cube"
            self.handles[key] = HandleView(cid, hid, sid, cls)
            self.by_client[cid].append(key)
        elif kind in ("READ", "READX"):
            cid, hid, path = op[1], op[2], op[3]
            key = "%s.%s" % (cid, hid)
            hv = self.handles.get(key)
            if hv is not None:
                hv.learn(path, ev.get("k"))
                hv.read_keys.add(pkey(path))
                self.history.append((key, path))
        elif kind == "EDIT":
            for key in ev.get("dropped") or []:
                hv = self.handles.pop(key, None)
                if hv is not None and key in self.by_client.get(hv.cid, []):
                    self.by_client[hv.cid].remove(key)
                self.history = [h for h in self.history if h[0] != key]
        elif kind == "HOLD":
            _k, cid, hid, src, path = op
            key = "%s.%s" % (cid, hid)
            cls = (ev.get("k") or {}).get("cls")
            if cls:
                hv = HandleView(cid, hid, ev.get("sid") or self.handles["%s.%s" % (cid, src)].sid, cls)
                hv.learn([], ev.get("k"))
                self.handles[key] = hv
                self.by_client[cid].append(key)
        elif kind == "DROP":
            _k, cid, hid = op
            key = "%s.%s" % (cid, hid)
            self.handles.pop(key, None)
            if key in self.by_client[cid]:
                self.by_client[cid].remove(key)
            self.history = [h for h in self.history if h[0] != key]

    # -- choices
    def _client(self):
        r = self.rnd
        if self.last_client is not None and r.random() < self.kn["burst"]:
            return self.last_client
        c = r.choice(self.clients)
        self.last_client = c
        return c

    def _construct(self, cid):
        sid = self.rnd.choice(self.spec_ids)
        hid = "h%d" % self.next_hid[cid]
        self.next_hid[cid] += 1
        return ["CONSTRUCT", cid, hid, sid]

    def _call_args(self, tag, hv):
        r = self.rnd
        if tag == "fmt":
            c = r.choice([None, "SIGNED_INDEXES", "BOGUS_IDS", "BOGUS_IDS"])
            return [] if c is None else [{"enum": ["ORDER_FORMAT", c]}]
        if tag == "colidx":
            return [r.choice([0, 0, 1, 1, 2, 3, -1, 99])]
        if tag == "elref":
            return [r.choice(self.ref_pool)]
        if tag == "elid":
            return [r.choice(self.ref_pool)]
        if tag == "dimtransforms":
            targs = [a for a in self.shared_arg_ids if self.sc["args"][a]["kind"] == "transforms"]
            if targs and r.random() < 0.8:
                return [{"arg": r.choice(targs), "keys": [r.choice(["rows_dimension", "columns_dimension"])]}]
            return [{"lit": r.choice(['{}', '{"prune":true}', '{"prune":1}', '{"prune":true}', '{"prune":1.0}',
                                      '{"elements":{"1":{"hide":true}}}', '{"elements":{"1":{"hide":1}}}',
                                      '{"order":{"type":"explicit","element_ids":[2,"nope",1]}}'])}]
        return []

    def _read(self, cid, want_call=False):
        r = self.rnd
        keys = self.by_client[cid]
        key = keys[-1] if (len(keys) == 1 or r.random() < 0.6) else r.choice(keys)
        hv = self.handles[key]
        nodes = sorted(hv.nodes)
        # weight: partitions heavily, the rest lightly
        weights = []
        for nk in nodes:
            cls = hv.nodes[nk][1]
            if cls in PARTITION_CLASSES:
                weights.append(12)
            elif cls in ("cube.Cube", "cube.CubeSet"):
                weights.append(4)
            elif cls == "dimension.Dimension":
                weights.append(3)
            else:
                weights.append(1)
        path, cls = hv.nodes[r.choices(nodes, weights)[0]]
        surf = self.surface.get(cls, {"props": [], "methods": {}})
        # not expanded yet? open the tree first, most of the time
        exp = [e for e in EXPANDERS.get(cls, []) if e in surf["props"]]
        unopened = [e for e in exp if pkey(path + [e]) not in hv.read_keys]
        if cls in ("cube.Cube", "cube.CubeSet") and unopened and r.random() < 0.75:
            return ["READ", cid, hv.hid, path + [unopened[0]]]
        if unopened and r.random() < self.kn["expand_rate"]:
            return ["READ", cid, hv.hid, path + [r.choice(unopened)]]
        templates = CALL_TEMPLATES.get(cls, {})
        calls = sorted(m for m in templates if m in surf["methods"])
        if calls and (want_call or r.random() < self.kn["call_rate"]):
            m = r.choice(calls)
            if m == "apply_transforms" and r.random() < 0.3:
                # the same Dimension asked twice in a row, with dicts that are == but differ
                a, b, prop = r.choice(self.EQUAL_BUT_DIFFERENT)
                self.__dict__.setdefault("pending", []).append(
                    ["READ", cid, hv.hid, path + [{"call": m, "args": [{"lit": b}]}, prop]])
                return ["READ", cid, hv.hid, path + [{"call": m, "args": [{"lit": a}]}, prop]]
            return ["READ", cid, hv.hid, path + [{"call": m, "args": self._call_args(templates[m], hv)}]]
        if cls in ("cube.Cube",) + PARTITION_CLASSES[:2] and r.random() < 0.02:
            return ["READ", cid, hv.hid, path + [{"repr": 1}]]
        props = surf["props"]
        if not props:
            return ["READ", cid, hv.hid, path + [{"repr": 1}]]
        unread = [p for p in props if pkey(path + [p]) not in hv.read_keys]
        pool = unread if (unread and r.random() < 0.7) else props
        return ["READ", cid, hv.hid, path + [r.choice(pool)]]

    def _probe(self):
        r = self.rnd
        if self.history and r.random() < 0.8:
            key, path = r.choice(self.history[-30:])
            return ["PROBE", self.handles[key].sid, path]
        sid = r.choice(self.spec_ids)
        root = "partition_sets" if self.sc["specs"][sid]["type"] == "cubeset" else "partitions"
        return ["PROBE", sid, [root]]

    # -- sweep mode: every property of one or two partitions, in a shuffled order
    def _sweep_plan(self, hv):
        r = self.rnd
        parts = sorted(k for k, (_p, cls) in hv.nodes.items() if cls in PARTITION_CLASSES)
        if not parts:
            return []
        chosen = r.sample(parts, min(len(parts), r.choice([1, 1, 2])))
        plan = []
        for nk in chosen:
            path, cls = hv.nodes[nk]
            surf = self.surface.get(cls, {"props": [], "methods": {}})
            for p in surf["props"]:
                plan.append(path + [p])
            templates = CALL_TEMPLATES.get(cls, {})
            for m in sorted(templates):
                if m in surf["methods"]:
                    plan.append(path + [{"call": m, "args": self._call_args(templates[m], hv)}])
            if cls in PARTITION_CLASSES[:2]:
                plan.append(path + [{"repr": 1}])  # what a console session does first
        r.shuffle(plan)
        return plan

    def _next_sweep_op(self):
        r = self.rnd
        st = self.__dict__.setdefault("_sweep", {"key": None, "plan": None, "opened": False})
        if st["key"] is None or st["key"] not in self.handles:
            cid = self._client()
            st.update(key=None, plan=None, opened=False, phase2=False)
            op = self._construct(cid)
            st["key"] = "%s.%s" % (op[1], op[2])
            return op
        hv = self.handles[st["key"]]
        if not st["opened"]:
            st["opened"] = True
            root = "partition_sets" if hv.nodes[pkey([])][1] == "cube.CubeSet" else "partitions"
            return ["READ", hv.cid, hv.hid, [root]]
        if st["plan"] is None:
            st["plan"] = self._sweep_plan(hv)
        if st["plan"]:
            # an occasional repeat of something already read keeps I1 in play
            if self.history and r.random() < 0.05:
                key, path = r.choice(self.history[-40:])
                if key in self.handles:
                    return ["READ", self.handles[key].cid, self.handles[key].hid, path]
            return ["READ", hv.cid, hv.hid, st["plan"].pop()]
        if not st.get("phase2"):
            # second phase: the objects the partition handed out (min-base mask, pairwise
            # test objects, ...) - every property of each, shuffled
            st["phase2"] = True
            plan = []
            for nk in sorted(hv.nodes):
                path, cls = hv.nodes[nk]
                if cls in PARTITION_CLASSES or cls in ("cube.Cube", "cube.CubeSet") or not path:
                    continue
                if path[0] not in ("partitions", "partition_sets"):
                    continue
                for p in self.surface.get(cls, {"props": []})["props"]:
                    if pkey(path + [p]) not in hv.read_keys:
                        plan.append(path + [p])
            r.shuffle(plan)
            st["plan"] = plan[:60]
            if st["plan"]:
                return ["READ", hv.cid, hv.hid, st["plan"].pop()]
        # plan exhausted: another object on the same (by now edited) arguments
        st.update(key=None, plan=None, opened=False, phase2=False)
        return self._next_sweep_op()

    # -- deck mode: table after table, the same fixed script of reads on each
    EXPORTER_SCRIPT = [
        "name", "rows_dimension_name", "columns_dimension_name", "rows_dimension_type", "columns_dimension_type",
        "table_name", "row_labels", "column_labels", "shape", "counts", "unweighted_counts", "weighted_counts",
        "column_proportions", "column_percentages", "row_proportions", "table_proportions", "rows_margin",
        "columns_margin", "table_margin", "rows_base", "columns_base", "table_base", "unweighted_bases",
        "table_base_range", "column_index", "zscores", "pvals", "pairwise_indices", "inserted_row_idxs",
        "inserted_column_idxs", "rows_dimension_fills", "population_counts", "population_counts_moe", "means",
        "rows_scale_mean", "columns_scale_mean", "scale_mean", "min_base_size_mask", "is_empty",
    ]

    def _deck_script(self, cls):
        surf = self.surface.get(cls, {"props": [], "methods": {}})
        kind = self.kn.get("deck_script", "exporter")
        if kind == "exporter":
            names = [n for n in self.EXPORTER_SCRIPT if n in surf["props"]]
        elif kind == "numeric-heavy":
            # the numeric-measure columns of an export: most of them "undefined" for a given cube
            extra = ["means", "medians", "stddev", "sums", "smoothed_means", "column_share_sum", "row_share_sum",
                     "total_share_sum", "share_sum", "pairwise_means_indices", "pairwise_means_indices_alt"]
            names = [n for n in self.EXPORTER_SCRIPT[:12] + extra if n in surf["props"]]
        else:
            names = list(surf["props"])[:: 3 if len(surf["props"]) > 60 else 1]
            if kind == "reverse":
                names = names[::-1]
        script = [[n] for n in names]
        if "row_order" in surf["methods"]:
            script.append([{"call": "row_order", "args": []}])
            script.append([{"call": "row_order", "args": [{"enum": ["ORDER_FORMAT", "BOGUS_IDS"]}]}])
        return script

    def _next_deck_op(self):
        st = self.__dict__.setdefault("_deck", {"i": 0, "key": None, "plan": None, "opened": False})
        if st["key"] is None or st["key"] not in self.handles:
            sid = self.spec_ids[st["i"] % len(self.spec_ids)]
            st["i"] += 1
            cid = self.clients[0]
            hid = "h%d" % self.next_hid[cid]
            self.next_hid[cid] += 1
            st.update(key="%s.%s" % (cid, hid), plan=None, opened=False)
            return ["CONSTRUCT", cid, hid, sid]
        hv = self.handles[st["key"]]
        if not st["opened"]:
            st["opened"] = True
            root = "partition_sets" if hv.nodes[pkey([])][1] == "cube.CubeSet" else "partitions"
            return ["READ", hv.cid, hv.hid, [root]]
        if st["plan"] is None:
            parts = sorted(k for k, (_p, cls) in hv.nodes.items() if cls in PARTITION_CLASSES)[:3]
            plan = []
            for nk in parts:
                path, cls = hv.nodes[nk]
                plan.extend(path + seg for seg in self._deck_script(cls))
            st["plan"] = plan[::-1]
        if st["plan"]:
            return ["READ", hv.cid, hv.hid, st["plan"].pop()]
        # table done: most exporters drop it, some keep every table alive until the end
        key = st["key"]
        st.update(key=None, plan=None, opened=False)
        if "F2" in self.kn["faults"] or self.rnd.random() < 0.5:
            return ["DROP", hv.cid, hv.hid]
        return self._next_deck_op()

    def _edit(self):
        """F8: an edit the caller makes to one of its own (dict-form, non-derived) arguments."""
        r = self.rnd
        cands = []
        for a in self.shared_arg_ids:
            ad = self.sc["args"][a]
            if any(k in ad for k in ("view_of", "compose", "trim_of")):
                continue
            if ad["kind"] == "transforms" or (ad["kind"] == "response" and ad.get("form", "asis") in ("asis", "toggle")):
                cands.append(a)
        if not cands:
            return None
        a = r.choice(cands)
        ad = self.sc["args"][a]
        if ad["kind"] == "transforms":
            axis = r.choice(["rows_dimension", "columns_dimension"])
            kind = r.choice(["hide", "hide", "prune", "order"])
            if kind == "hide":
                key = r.choice([x for x in self.ref_pool if isinstance(x, (str, int)) and not isinstance(x, bool)] or ["1"])
                return ["EDIT", a, ["hide", axis, str(key)]]
            if kind == "prune":
                return ["EDIT", a, ["prune", axis, r.choice([True, False])]]
            ids = [x for x in r.sample(self.ref_pool, min(3, len(self.ref_pool))) if x is not None]
            return ["EDIT", a, ["order", axis, ids]]
        if "corpus" not in ad:
            return ["EDIT", a, ["retitle", 0, "Friendlier title"]]
        meta = model.corpus_index()[ad["corpus"]]
        dims = [d for d in meta["dims"] if d["raw_idx"] >= 0]
        if not dims:
            return None
        d = r.choice(dims)
        valid = [k for k, e in enumerate(d["elements"]) if not e["missing"]]
        if d["type"] in ("CAT", "CAT_DATE") and len(valid) >= 3 and r.random() < 0.5:
            return ["EDIT", a, ["missing", d["raw_idx"], r.choice(valid)]]
        return ["EDIT", a, ["retitle", d["raw_idx"], r.choice(["Friendlier title", "", "Retitled"])]]

    def _ambient(self):
        r = self.rnd
        if "F7" in self.kn["faults"] and r.random() < 0.4:
            # log-uniform: most reads are a few hundred library lines, some many thousands
            return {"interrupt": int(2 ** r.uniform(1, 12))}
        if r.random() < 0.5:
            return {"errstate": "raise"}
        return {"deep": r.choice([20, 28, 34, 36, 38, 40, 42, 46, 52, 60, 75, 95, 130])}

    def next_op(self):
        op = self._next_op()
        # F6: now and then the host is in an unusual state while a read is made
        if op[0] == "READ" and ("F6" in self.kn["faults"] or "F7" in self.kn["faults"]) and self.rnd.random() < self.kn.get("ambient_rate", 0.04):
            return ["READX", op[1], op[2], op[3], self._ambient()]
        return op

    EQUAL_BUT_DIFFERENT = [  # dicts that compare == and do not mean the same to the library
        ('{"prune":true}', '{"prune":1}', "prune"),
        ('{"prune":1}', '{"prune":true}', "prune"),
        ('{"elements":{"1":{"hide":true}}}', '{"elements":{"1":{"hide":1}}}', "hidden_idxs"),
        ('{"elements":{"1":{"hide":1}}}', '{"elements":{"1":{"hide":true}}}', "hidden_idxs"),
    ]

    def _next_op(self):
        r = self.rnd
        self.steps += 1
        if self.__dict__.get("pending"):
            op = self.pending.pop(0)
            if "%s.%s" % (op[1], op[2]) in self.handles:
                return op
        if self.kn.get("mode") == "sweep":
            return self._next_sweep_op()
        if self.kn.get("mode") == "deck":
            return self._next_deck_op()
        cid = self._client()
        faults = self.kn["faults"]
        if not self.by_client[cid]:
            return self._construct(cid)
        # fault placement bias: right after a step that edited a shared argument
        if self.last_changed and r.random() < 0.4:
            self.stats["after_edit_faults"] += 1
            choices = ["CONSTRUCT", "PROBE"]
            if "F2" in faults:
                choices += ["DROP", "DROP"]
            if "F3" in faults:
                choices += ["RELOAD", "RELOAD"]
            k = r.choice(choices)
        else:
            weights = {
                "READ": 60,
                "REPEAT": 100 * self.kn["repeat_rate"] * 0.6,
                "CONSTRUCT": 7,
                "PROBE": 5,
                "DROP": 4 if "F2" in faults else 0.5,
                "RELOAD": 3 if "F3" in faults else 0,
                "CALLF1": 4 if "F1" in faults else 0,
                "HOLD": 2.5 if "F2" in faults else 0.5,
                "EDIT": 1.5 if "F8" in faults else 0,
            }
            names = sorted(weights)
            k = r.choices(names, [weights[n] for n in names])[0]
        if k == "READ":
            return self._read(cid)
        if k == "CALLF1":
            return self._read(cid, want_call=True)
        if k == "REPEAT":
            mine = [h for h in self.history if h[0] in self.by_client[cid]]
            if not mine:
                return self._read(cid)
            key, path = r.choice(mine[-20:])
            return ["READ", cid, self.handles[key].hid, path]
        if k == "EDIT":
            op = self._edit()
            if op is not None:
                return op
            return self._read(cid)
        if k == "HOLD":
            # keep a handed-out object, and usually let go of where it came from
            key = r.choice(self.by_client[cid])
            hv = self.handles[key]
            cands = sorted(nk for nk, (p, cls) in hv.nodes.items() if p and cls not in ("cube.Cube", "cube.CubeSet"))
            if not cands:
                return self._read(cid)
            path, _cls = hv.nodes[r.choice(cands)]
            hid = "h%d" % self.next_hid[cid]
            self.next_hid[cid] += 1
            if r.random() < 0.7:
                self.__dict__.setdefault("pending", []).append(["DROP", cid, hv.hid])
            return ["HOLD", cid, hid, hv.hid, path]
        if k == "CONSTRUCT":
            return self._construct(cid)
        if k == "PROBE":
            return self._probe()
        if k == "DROP":
            key = r.choice(self.by_client[cid])
            return ["DROP", cid, self.handles[key].hid]
        if k == "RELOAD":
            aid = r.choice(self.shared_arg_ids)
            return ["RELOAD", aid, r.choice(["json", "json", "deepcopy"])]
        raise AssertionError(k)
