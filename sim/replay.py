"""Replay a recorded violation file in fresh interpreters (no PRNG involved)."""

import json
import os

from . import findings
from .pool import Pool, env_of, group_for_env


def replay_file(path, repo):
    with open(path) as f:
        rec = json.load(f)
    sc, ops = rec["scenario"], rec["ops"]
    want = rec.get("violation", {})
    if rec.get("class") == "I5" or want.get("invariant") == "I5":
        if rec.get("envs"):
            envs = rec["envs"]
        else:  # files written before twins differed in more than the hash seed
            envs = [env_of(h) for h in rec.get("hashseeds", [1001, 7001])]
        pool = Pool(repo, {"A": group_for_env(envs[0]), "B": group_for_env(envs[1])})
        try:
            ra = pool.submit({"t": "replay", "scenario": sc, "ops": ops}, "A").result()
            rb = pool.submit({"t": "replay", "scenario": sc, "ops": ops}, "B").result()
        finally:
            pool.close()
        for r in (ra, rb):
            if r.get("status") in ("harness_error", "invalid"):
                return 2, "replay could not run: %s" % r.get("error")
        same = ra["log_digest"] == rb["log_digest"]
        if same:
            return 0, "not reproduced: both interpreters agree (log %s)" % ra["log_digest"][:12]
        for ea, eb in zip(ra["events"], rb["events"]):
            if ea.get("d") != eb.get("d") or ea.get("chg") != eb.get("chg"):
                return 1, "reproduced I5 at event %d %s: %s | %s" % (
                    ea["i"], json.dumps(ea["op"]), ea.get("s", "")[:100], eb.get("s", "")[:100])
        return 1, "reproduced I5 (reference side differs between interpreters)"
    pool = Pool(repo, {"A": (1, 1001)})
    try:
        res = pool.submit({"t": "replay", "scenario": sc, "ops": ops}, "A").result()
    finally:
        pool.close()
    if res.get("status") in ("harness_error", "invalid"):
        return 2, "replay could not run: %s" % res.get("error")
    if res["status"] != "violation":
        return 0, "not reproduced: every read equals the history-free reference"
    exact = None
    for v in res["violations"]:
        if (v["invariant"], v["step"], v["path"]) == (want.get("invariant"), want.get("step"), want.get("path")):
            exact = v
            break
    v = exact or res["violations"][0]
    same_digests = exact is not None and exact["observed"][0] == want["observed"][0] and exact["expected"][0] == want["expected"][0]
    feat = findings.features(v, sc, res.get("events"))
    msg = "reproduced%s: %s step %s %s observed=%s expected=%s [class %s]" % (
        " exactly (same step, path and digests)" if same_digests else (" (same step and path)" if exact else " (different step)"),
        v["invariant"], v["step"], json.dumps(v["path"]), v["observed"][1][:100], v["expected"][1][:100],
        findings.violation_class(feat))
    return 1, msg


def main(args):
    with open(args.replay) as f:
        stability = (json.load(f).get("found_by") or {}).get("replay_stability") or ""
    attempts = 6 if stability.startswith("UNSTABLE") else 1
    for n in range(attempts):
        rc, msg = replay_file(args.replay, args.repo)
        if rc != 0:
            break
    if attempts > 1:
        msg += " [file marked %r: up to %d fresh interpreters tried, %d used]" % (stability[:8], attempts, n + 1)
    if rc == 1:
        print("VIOLATION property=C18 replay=%s" % os.path.abspath(args.replay))
    print(msg)
    return rc
