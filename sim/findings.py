"""Violation signatures and the committed known-findings file (read-only at run time)."""

import json
import os
import re

HERE = os.path.dirname(os.path.abspath(__file__))
KNOWN = os.path.join(os.path.dirname(HERE), "known_findings.json")


def load_known(path=KNOWN):
    if not os.path.exists(path):
        return []
    with open(path) as f:
        return json.load(f).get("findings", [])


def edits_before(events, step):
    """All argument diff classes seen up to and including `step` (-1: whole trace)."""
    out = set()
    for ev in events or []:
        if step >= 0 and ev["i"] > step:
            break
        for _aid, c in (ev.get("chg") or {}).items():
            out.update(c.get("diff", []))
    return sorted(out)


def features(violation, scenario, events):
    """What a known-finding signature may refer to."""
    sid = violation.get("sid")
    spec = (scenario or {}).get("specs", {}).get(sid, {})
    step = violation.get("step", -1)
    ops_before = [ev["op"][0] for ev in (events or []) if step < 0 or ev["i"] <= step]
    return {
        "invariant": violation["invariant"],
        "kind": violation["kind"],
        "family": violation["family"],
        "observed_exc": violation["observed"][2],
        "observed_msg": violation["observed"][1],
        "expected_exc": violation["expected"][2],
        "expected_msg": violation["expected"][1],
        "spec_type": spec.get("type"),
        "topology": (scenario or {}).get("knobs", {}).get("topology"),
        "edits": edits_before(events, step),
        "used_reload": "RELOAD" in ops_before,
        "op": violation.get("op"),
    }


def matches(sig, feat):
    """Every key present in the signature must match; unknown keys never match."""
    for k, want in sig.items():
        if k == "invariant":
            if feat["invariant"] not in (want if isinstance(want, list) else [want]):
                return False
        elif k in ("kind", "observed_exc", "expected_exc", "spec_type"):
            if feat[k] != want:
                return False
        elif k == "topology":
            if feat["topology"] not in (want if isinstance(want, list) else [want]):
                return False
        elif k == "family_re":
            if not re.search(want, feat["family"] or ""):
                return False
        elif k == "observed_msg_re":
            if not re.search(want, feat["observed_msg"] or ""):
                return False
        elif k == "expected_msg_re":
            if not re.search(want, feat["expected_msg"] or ""):
                return False
        elif k == "requires_edit_re":
            if not any(re.search(want, e) for e in feat["edits"]):
                return False
        else:
            return False
    return True


def classify(violation, scenario, events, known):
    """Return (finding or None, features). 'fixed' entries suppress nothing."""
    feat = features(violation, scenario, events)
    for f in known:
        if f.get("status") != "known":
            continue
        if f.get("property") != "C18":
            continue
        if matches(f["signature"], feat):
            return f, feat
    return None, feat


def violation_class(feat):
    """Coarse class used to group new violations and to steer the minimiser."""
    msg = feat["observed_msg"] if feat["observed_exc"] else ""
    msg = re.sub(r"[0-9]+", "N", msg)[:60]
    return "|".join(
        str(x)
        for x in (
            feat["invariant"] if feat["invariant"] not in ("I3", "I4") else "I3/I4",
            feat["spec_type"],
            feat["kind"],
            feat["observed_exc"],
            feat["expected_exc"],
            msg,
        )
    )
