"""Batch driver for property C18: seeded search, twins, classification, evidence."""

import argparse
import collections
import hashlib
import json
import math
import os
import sys
import threading
import time

HERE = os.path.dirname(os.path.abspath(__file__))
VERIF = os.path.dirname(HERE)
sys.path.insert(0, VERIF)

from sim import findings, minimise  # noqa: E402
from sim.pool import DEFAULT_PROFILE, TWIN_PROFILE, Pool, WorkerDied, env_of, group_for_env  # noqa: E402
from sim.scenario import splitmix64  # noqa: E402

TIERS = {
    "quick": {
        "id": 1,
        "runs": 3000,
        "twin_share": 0.5,
        "echo_share": 0.02,
        "cfg": {"steps": [16, 24, 40], "clients": [1, 2, 3], "fault_free_share": 0.25,
                "marathon": {"share_of_T9": 0.03, "steps": 4000}},
        "batch_cap_s": 600,
        "minimise_budget_s": 180,
    },
    "thorough": {
        "id": 2,
        "runs": 100000,
        "twin_share": 1.0,
        "echo_share": 0.01,
        "cfg": {"steps": [24, 40, 60, 80], "clients": [1, 2, 3, 4], "fault_free_share": 0.2,
                "marathon": {"share_of_T9": 0.01, "steps": 12000}},
        "batch_cap_s": 3 * 3600,
        "minimise_budget_s": 480,
    },
}
BITMAP_BITS = 1 << 24
MAX_TRACES = 60
MAX_MINIMISE = 8


class Bitmap:
    """Linear-counting estimator for the number of distinct 64-bit hashes seen."""

    def __init__(self, bits=BITMAP_BITS):
        self.bits = bits
        self.buf = bytearray(bits // 8)

    def add(self, h):
        i = h % self.bits
        self.buf[i >> 3] |= 1 << (i & 7)

    def estimate(self):
        ones = sum(bin(b).count("1") for b in self.buf) if False else int.from_bytes(self.buf, "big").bit_count()
        zeros = self.bits - ones
        if zeros == 0:
            return self.bits * 20
        return int(round(-self.bits * math.log(zeros / self.bits)))


class Aggregate:
    def __init__(self):
        self.lock = threading.Lock()
        self.n = collections.Counter()
        self.ops = collections.Counter()
        self.fired = collections.Counter()
        self.fired_runs = collections.Counter()
        self.probes = collections.Counter()
        self.topologies = collections.Counter()
        self.modes = collections.Counter()
        self.references = 0
        self.warn_modes = collections.Counter()
        self.fault_sets = collections.Counter()
        self.steps = 0
        self.edits = 0
        self.truncated = 0
        self.interleavings = set()
        self.nontrivial_interleavings = set()
        self.states = Bitmap()
        self.digests = {"A": {}, "B": {}, "E": {}}
        self.hashseeds = {"A": {}, "B": {}, "E": {}}
        self.violating = []  # results with traces
        self.violation_count = 0
        self.harness_errors = []
        self.samples = []
        self.run_wall = 0.0
        self.max_run_wall = 0.0

    def add(self, res, role):
        with self.lock:
            st = res.get("status")
            self.n[role + ":" + str(st)] += 1
            if st == "harness_error":
                if len(self.harness_errors) < 10:
                    self.harness_errors.append({"seed": res.get("run_seed"), "role": role, "error": res.get("error")})
                return
            self.digests[role][res["run_seed"]] = (res["log_digest"][:16], res["ops_digest"][:16])
            self.hashseeds[role][res["run_seed"]] = res.get("env") or env_of(res.get("hashseed") or 1001)
            self.run_wall += res.get("wall_s", 0)
            self.max_run_wall = max(self.max_run_wall, res.get("wall_s", 0))
            if role != "A":
                if st == "violation" and role == "B":
                    # a violation only the twin sees is still a violation
                    self._keep_violation(res, role)
                return
            s = res["stats"]
            self.steps += s["steps"]
            self.edits += s["edits"]
            self.truncated += 1 if s["truncated"] else 0
            self.ops.update(s["ops"])
            self.fired.update(s["fired"])
            self.fired_runs.update(k for k, v in s["fired"].items() if v)
            self.probes.update(s["probes"])
            self.topologies[s["topology"]] += 1
            self.modes[s.get("mode", "mixed")] += 1
            self.references += s.get("references", 0)
            self.warn_modes[s["warnings"]] += 1
            self.fault_sets["+".join(s["faults"]) or "fault-free"] += 1
            self.interleavings.add(s["interleaving"])
            if s["nontrivial"]:
                self.nontrivial_interleavings.add(s["interleaving"])
            for h in res.get("state_hashes", ()):
                self.states.add(h)
            if st == "violation":
                self._keep_violation(res, role)
            if "events" in res and len(self.samples) < 3 and st == "ok":
                self.samples.append(_sample_of(res))

    def _keep_violation(self, res, role):
        self.violation_count += 1
        if len(self.violating) < MAX_TRACES:
            res = dict(res)
            res["role"] = role
            res.pop("state_hashes", None)
            self.violating.append(res)


def _sample_of(res):
    sc = res["scenario"]
    return {
        "run_seed": sc["run_seed"],
        "knobs": sc["knobs"],
        "args": {k: {kk: vv for kk, vv in v.items() if kk != "json"} | ({"json": v["json"][:300]} if "json" in v else {})
                 for k, v in sc["args"].items()},
        "specs": sc["specs"],
        "clients": sc["clients"],
        "history": [[ev["op"], ev.get("s", "")[:80]] + ([sorted(ev["chg"])] if ev.get("chg") else [])
                    for ev in res["events"][:40]],
    }


def seeds_for(base_seed, tier, n):
    return [splitmix64(base_seed, TIERS[tier]["id"], i) & ((1 << 53) - 1) for i in range(n)]


def first_divergence(ta, tb):
    """Compare two traces of the same run seed executed in different interpreters."""
    ea, eb = ta["events"], tb["events"]
    for i in range(min(len(ea), len(eb))):
        if ea[i]["op"] != eb[i]["op"]:
            return "ops", i
        if ea[i].get("d") != eb[i].get("d") or ea[i].get("chg") != eb[i].get("chg"):
            return "value", i
    if len(ea) != len(eb):
        return "ops", min(len(ea), len(eb))
    return "oracle", -1


def attribute_env(repo, envs, sc, ops):
    """Which single difference between the two environments reproduces the disagreement?"""
    out = {}
    for dim in ("hashseed", "tz", "opt"):
        if envs[0].get(dim) == envs[1].get(dim):
            continue
        other = dict(envs[0])
        other[dim] = envs[1][dim]
        p2 = Pool(repo, {"X": group_for_env(envs[0]), "Y": group_for_env(other)})
        try:
            ra = p2.submit({"t": "replay", "scenario": sc, "ops": ops}, "X").result()
            rb = p2.submit({"t": "replay", "scenario": sc, "ops": ops}, "Y").result()
        finally:
            p2.close()
        if "log_digest" in ra and "log_digest" in rb:
            out[dim] = ra["log_digest"] != rb["log_digest"]
    return out


def minimise_i5(repo, hs, sc, ops):
    """Shrink a history on which two interpreters (environments hs) disagree."""
    p2 = Pool(repo, {"X": group_for_env(hs[0]), "Y": group_for_env(hs[1])})
    try:
        def differ(sc_, ops_):
            fa = p2.submit({"t": "replay", "scenario": sc_, "ops": ops_}, "X")
            fb = p2.submit({"t": "replay", "scenario": sc_, "ops": ops_}, "Y")
            ra, rb = fa.result(), fb.result()
            if ra.get("status") in ("harness_error", "invalid") or rb.get("status") in ("harness_error", "invalid"):
                return None
            if ra["log_digest"] == rb["log_digest"]:
                return None
            for ea, eb in zip(ra["events"], rb["events"]):
                if ea.get("d") != eb.get("d") or ea.get("chg") != eb.get("chg"):
                    return (ea, eb)
            return ({}, {})

        m = minimise.Minimiser(differ, None, budget_s=90, max_replays=300)
        out = m.run(sc, ops, None)
        if out is None:
            return None
        sc2, ops2, hit = out
        return {"scenario": sc2, "ops": ops2, "a": hit[0], "b": hit[1], "replays": m.n_replays}
    finally:
        p2.close()


def main(argv=None):
    ap = argparse.ArgumentParser(prog="check C18")
    ap.add_argument("--tier", choices=sorted(TIERS), default=os.environ.get("VERIF_TIER", "quick"))
    ap.add_argument("--seed", type=int, default=int(os.environ.get("VERIF_SEED", "0")))
    ap.add_argument("--runs", type=int, default=None)
    ap.add_argument("--repo", default=os.environ.get("VERIF_REPO", "/repo"))
    ap.add_argument("--workers", type=int, default=int(os.environ.get("VERIF_WORKERS", "0")) or (os.cpu_count() or 4))
    ap.add_argument("--replay", default=None)
    ap.add_argument("--evidence", default=os.path.join(VERIF, "evidence", "C18.json"))
    ap.add_argument("--no-minimise", action="store_true")
    ap.add_argument("--out-prefix", default="")
    args = ap.parse_args(argv)
    if args.replay:
        from sim import replay

        return replay.main(args)
    return batch(args)


def batch(args):
    t0 = time.time()
    tier = TIERS[args.tier]
    n_runs = args.runs or tier["runs"]
    seeds = seeds_for(args.seed, args.tier, n_runs)
    n_twin = int(round(n_runs * tier["twin_share"]))
    n_echo = max(1, int(round(n_runs * tier["echo_share"])))
    twin_seeds = seeds if n_twin >= n_runs else seeds[:: max(1, n_runs // max(n_twin, 1))][:n_twin]
    echo_seeds = seeds[:: max(1, n_runs // n_echo)][:n_echo]
    total = n_runs + len(twin_seeds) + len(echo_seeds)
    nb = max(1, min(args.workers - 1, int(round(args.workers * len(twin_seeds) / total)))) if args.workers > 1 else 0
    na = max(1, args.workers - nb)
    groups = {"A": (na, 1001, DEFAULT_PROFILE)}
    if nb:
        groups["B"] = (nb, 7001, TWIN_PROFILE)
    print("C18 %s: seed=%d runs=%d twins=%d echoes=%d workers=A%d+B%d repo=%s" % (
        args.tier, args.seed, n_runs, len(twin_seeds), len(echo_seeds), na, nb, args.repo), flush=True)
    agg = Aggregate()
    harness_problem = None
    try:
        pool = Pool(args.repo, groups)
    except WorkerDied as e:
        print("HARNESS-ERROR: %s" % e)
        return 2
    try:
        hellos = pool.hellos()
        for h in hellos:
            if os.path.realpath(h["cr_cube"]) != os.path.realpath(h["cr_cube_expected"]):
                print("HARNESS-ERROR: worker imported cr.cube from %s, expected %s" % (h["cr_cube"], h["cr_cube_expected"]))
                return 2
        futs = []
        want_samples = set(seeds[:3])
        for s in seeds:
            futs.append((pool.submit({"t": "run", "seed": s, "cfg": tier["cfg"], "trace": s in want_samples}, "A"), "A"))
        gb = "B" if nb else "A"
        for s in twin_seeds:
            futs.append((pool.submit({"t": "run", "seed": s, "cfg": tier["cfg"]}, gb), "B"))
        for s in echo_seeds:
            futs.append((pool.submit({"t": "run", "seed": s, "cfg": tier["cfg"]}, "A"), "E"))
        done = 0
        last_print = time.time()
        for fi in range(len(futs)):
            fut, role = futs[fi]
            futs[fi] = None  # results are aggregated, not kept: memory stays flat in long batches
            while True:
                try:
                    res = fut.result(timeout=30)
                    break
                except Exception:
                    if time.time() - t0 > tier["batch_cap_s"]:
                        harness_problem = "batch wall-clock cap (%ds) exceeded" % tier["batch_cap_s"]
                        break
            if harness_problem:
                break
            agg.add(res, role)
            done += 1
            if time.time() - last_print > 30:
                last_print = time.time()
                print("  ... %d/%d results, %d violating, %.0fs" % (done, total, agg.violation_count, time.time() - t0), flush=True)

        # ---- determinism (echo) and environment independence (twin, I5)
        env_violations = []
        nondeterministic = []
        if not harness_problem:
            for role, bucket in (("B", env_violations), ("E", nondeterministic)):
                for s, dg in sorted(agg.digests[role].items()):
                    da = agg.digests["A"].get(s)
                    if da is not None and da != dg:
                        bucket.append(s)
        i5 = []
        n_env_divergent = len(env_violations)
        for s in (env_violations[:4] + nondeterministic[:2]):
            role = "B" if s in env_violations else "E"
            hs = [agg.hashseeds["A"].get(s) or env_of(1001), agg.hashseeds[role].get(s) or env_of(7001, TWIN_PROFILE)]
            # re-run in two fresh interpreters in exactly the two environments that disagreed
            p2 = Pool(args.repo, {"X": group_for_env(hs[0]), "Y": group_for_env(hs[1])})
            try:
                ta = p2.submit({"t": "run", "seed": s, "cfg": tier["cfg"], "trace": True}, "X").result()
                tb = p2.submit({"t": "run", "seed": s, "cfg": tier["cfg"], "trace": True}, "Y").result()
            finally:
                p2.close()
            if ta.get("status") == "harness_error" or tb.get("status") == "harness_error":
                harness_problem = "could not re-run diverging seed %d" % s
                continue
            what, idx = first_divergence(ta, tb)
            if what == "oracle" and ta["log_digest"] == tb["log_digest"]:
                harness_problem = "divergence of run seed %d between hash seeds %r did not reproduce" % (s, hs)
                continue
            rec = {"seed": s, "what": what, "index": idx, "a": ta, "b": tb, "hashseeds": hs,
                   "echo": hs[0] == hs[1], "n_divergent": n_env_divergent}
            if what == "value" and hs[0] != hs[1] and not args.no_minimise and len(i5) < 2:
                rec["minimised"] = minimise_i5(args.repo, hs, ta["scenario"], ta["ops"][: idx + 1] if idx >= 0 else ta["ops"])
            if hs[0] != hs[1] and len(i5) < 3:
                m = rec.get("minimised")
                rec["attribution"] = attribute_env(
                    args.repo, hs, m["scenario"] if m else ta["scenario"],
                    m["ops"] if m else (ta["ops"][: idx + 1] if idx >= 0 else ta["ops"]))
            i5.append(rec)

        rc, lines = judge(args, agg, i5, pool, tier, nb, harness_problem)
    finally:
        pool.close()
    wall = time.time() - t0
    write_evidence(args, agg, hellos, wall, n_runs, len(twin_seeds), len(echo_seeds), lines, rc)
    for ln in lines:
        print(ln)
    print("C18 %s: %d runs (+%d twins, +%d echoes), %d steps, %.1fs, exit %d" % (
        args.tier, n_runs, len(twin_seeds), len(echo_seeds), agg.steps, wall, rc))
    return rc


def judge(args, agg, i5, pool, tier, nb, harness_problem):
    """Classify everything that went wrong; returns (exit code, report lines)."""
    lines = []
    rc = 0
    known = findings.load_known()
    known_hits = collections.Counter()
    new_by_class = collections.OrderedDict()
    for res in agg.violating:
        for v in res["violations"]:
            f, feat = findings.classify(v, res.get("scenario"), res.get("events"), known)
            if f is not None:
                known_hits[f["id"]] += 1
                continue
            cls = findings.violation_class(feat)
            new_by_class.setdefault(cls, []).append((res, v, feat))
            break  # one new violation per run is enough
    untraced = agg.violation_count - len(agg.violating)
    for f in known:
        if f.get("status") == "known" and known_hits.get(f["id"]):
            lines.append("KNOWN-FINDING: property=C18 %s %s (seen in %d sampled runs)" % (f["id"], f["what"], known_hits[f["id"]]))
    if untraced > 0 and not new_by_class:
        lines.append("note: %d further violating runs were counted but not classified (trace cap %d)" % (untraced, MAX_TRACES))
        # unclassified violations must not pass silently
        if not known_hits:
            rc = 1

    def replay_fn(sc, ops):
        return pool.submit({"t": "replay", "scenario": sc, "ops": ops}, "A").result()

    os.makedirs(os.path.join(VERIF, "replays"), exist_ok=True)
    # a change that breaks the property wholesale yields dozens of classes: bound the time
    # spent shrinking them (the unminimised histories are still written out and replayable)
    minimise_deadline = time.time() + tier.get("minimise_budget_s", 240)
    for n, (cls, items) in enumerate(new_by_class.items()):
        rc = 1
        res, v, feat = min(items, key=lambda it: len(it[0].get("ops", [])))
        sc, ops, hit = res["scenario"], res["ops"], (v, res)
        minimised_from = len(ops)
        note = "not minimised"
        if n < MAX_MINIMISE and not args.no_minimise and time.time() < minimise_deadline:
            m = minimise.Minimiser(replay_fn, cls, budget_s=max(10, min(60, minimise_deadline - time.time())))
            out = None
            if v["invariant"] in ("I6", "I7"):
                # statements about the reference alone: one probe usually suffices
                out = m.run(sc, [["PROBE", v["sid"], v["path"]]], None)
            if out is None:
                out = m.run(sc, ops, v.get("step"))
            if out is not None:
                sc, ops, hit = out
                note = "minimised with %d replays" % m.n_replays
            else:
                note = "minimiser could not reproduce; original kept"
        # The replay command runs the file in a brand-new interpreter; confirm there that what
        # is about to be reported reproduces (a change whose effect depends on memory addresses
        # or allocator state may reproduce in the long-lived worker that minimised it only).
        stability = "not checked"
        if n < MAX_MINIMISE and not args.no_minimise:
            def fresh_ok(sc_, ops_):
                p1 = Pool(args.repo, {"F": (1, 1001)})
                try:
                    r1 = p1.submit({"t": "replay", "scenario": sc_, "ops": ops_}, "F").result()
                finally:
                    p1.close()
                if r1.get("status") != "violation":
                    return None
                for v1 in r1["violations"]:
                    f1 = findings.features(v1, sc_, r1.get("events"))
                    if findings.violation_class(f1) == cls:
                        return (v1, r1)
                return None

            got = fresh_ok(sc, ops)
            if got:
                hit = got
                stability = "reproduced in a fresh interpreter"
            else:
                got = fresh_ok(res["scenario"], res["ops"]) if ops is not res["ops"] else None
                if got:
                    sc, ops, hit = res["scenario"], res["ops"], got
                    note += "; minimised form did not reproduce in a fresh interpreter, original history kept"
                    stability = "original reproduced in a fresh interpreter"
                else:
                    stability = "UNSTABLE: did not reproduce in a fresh interpreter (address/allocator dependent?)"
        vv = hit[0]
        name = "%sC18-%s-%s.json" % (args.out_prefix, hashlib.sha1(cls.encode()).hexdigest()[:8], sc["run_seed"])
        path = os.path.join(VERIF, "replays", name)
        with open(path, "w") as f:
            json.dump({
                "format": 1, "property": "C18", "class": cls, "scenario": sc, "ops": ops,
                "violation": vv, "features": findings.features(vv, sc, hit[1].get("events")),
                "found_by": {"seed": args.seed, "tier": args.tier, "run_seed": res["run_seed"],
                             "minimised_from_steps": minimised_from, "note": note, "replay_stability": stability},
                "occurrences_in_batch": len(items),
            }, f, indent=1)
        lines.append("VIOLATION property=C18 replay=%s" % path)
        lines.append("  class: %s (%d runs) %s; %s" % (cls, len(items), note, stability))
        lines.append("  %s %s observed=%s expected=%s" % (vv["invariant"], json.dumps(vv["path"]), vv["observed"][1][:100], vv["expected"][1][:100]))

    for d in i5:
        if d["what"] == "ops" or d["echo"]:
            harness_problem = harness_problem or (
                "nondeterministic %s for run seed %d at event %d (%s)" % (
                    d["what"], d["seed"], d["index"], "same hash seed family" if d["echo"] else "across hash seeds"))
            continue
        rc = 1
        ea = d["a"]["events"][d["index"]] if d["index"] >= 0 else {}
        eb = d["b"]["events"][d["index"]] if d["index"] >= 0 else {}
        mini = d.get("minimised")
        if mini:
            ea, eb = mini["a"], mini["b"]
        feat = {"invariant": "I5", "kind": "value-vs-value", "family": "", "observed_exc": ea.get("x"),
                "expected_exc": eb.get("x"), "observed_msg": ea.get("s", ""), "expected_msg": eb.get("s", "")}
        name = "%sC18-I5-%s.json" % (args.out_prefix, d["seed"])
        path = os.path.join(VERIF, "replays", name)
        with open(path, "w") as f:
            json.dump({
                "format": 1, "property": "C18", "class": "I5",
                "scenario": mini["scenario"] if mini else d["a"]["scenario"],
                "ops": mini["ops"] if mini else (d["a"]["ops"][: d["index"] + 1] if d["index"] >= 0 else d["a"]["ops"]),
                "envs": d["hashseeds"],
                "attribution": d.get("attribution"),
                "violation": {"invariant": "I5", "step": d["index"], "op": ea.get("op"),
                              "observed": [ea.get("d"), ea.get("s"), ea.get("x")], "expected": [eb.get("d"), eb.get("s"), eb.get("x")],
                              "kind": "value-vs-value", "family": "", "sid": None, "path": (ea.get("op") or [None] * 4)[-1]},
                "found_by": {"seed": args.seed, "tier": args.tier, "run_seed": d["seed"],
                             "minimised_from_steps": len(d["a"]["ops"]),
                             "note": ("minimised with %d twin replays" % mini["replays"]) if mini else "not minimised"},
                "occurrences_in_batch": d.get("n_divergent"),
            }, f, indent=1)
        lines.append("VIOLATION property=C18 replay=%s" % path)
        lines.append("  I5 environment dependence (%r vs %r; reproduces when only this differs: %s; %s divergent twins) at %s: %s | %s" % (
            d["hashseeds"][0], d["hashseeds"][1],
            [k for k, v in (d.get("attribution") or {}).items() if v] or "undetermined",
            d.get("n_divergent"), json.dumps(ea.get("op")), ea.get("s", "")[:90], eb.get("s", "")[:90]))
    # not violations by themselves (C18 permits edits that leave every result unchanged), but
    # worth a line: on the repaired tree the library makes neither kind of edit
    for key in ("a caller-owned TRANSFORMS object was edited in place",
                "a caller-owned RESPONSE object was edited other than by adding subvar_alias/datetime_value"):
        if agg.probes.get(key):
            detail = sorted(k for k in agg.probes if k.startswith("transforms edit: "))[:4]
            lines.append("NOTE: %s in %d steps%s" % (key, agg.probes[key], (" e.g. " + "; ".join(detail)) if detail and "TRANSFORMS" in key else ""))
    if agg.harness_errors and rc == 0:
        harness_problem = harness_problem or "%d runs ended in a harness error, e.g. seed %s: %s" % (
            sum(v for k, v in agg.n.items() if k.endswith("harness_error")),
            agg.harness_errors[0]["seed"], (agg.harness_errors[0]["error"] or "")[-400:])
    if harness_problem:
        lines.append("HARNESS-ERROR: %s" % harness_problem)
        if rc == 0:
            rc = 2
    return rc, lines


def write_evidence(args, agg, hellos, wall, n_runs, n_twins, n_echo, lines, rc):
    runs_ok = sum(v for k, v in agg.n.items() if k.startswith("A:") and not k.endswith("harness_error"))
    total_exec = sum(agg.n.values())
    ev = {
        "property_id": "C18",
        "tier": args.tier,
        "seed": args.seed,
        "level": "exploration",
        "wall_s": round(wall, 2),
        "violations": sum(1 for ln in lines if ln.startswith("VIOLATION")),
        "coverage": {
            "evaluations": max(runs_ok, 0),
            "distinct_nontrivial": len(agg.nontrivial_interleavings),
            "rule": (
                "One evaluation = one simulated run: a seeded scenario (1-4 simulated clients, shared "
                "response/transforms argument objects in one of the sharing topologies counted under "
                "'topologies', run mode mixed / sweep / deck / marathon) executed step by step "
                "by the seeded read-scheduler in a forked history child and judged against a history-free "
                "reference evaluated in a second forked child (invariants I1-I7, see 'invariants_checked'). A run is non-trivial when the library edited at "
                "least one shared argument object in place AND that object was used by >= 2 constructions or "
                "the reads touched >= 2 partitions of a cube built on it; distinct = distinct hash of the "
                "(client, op kind, target) sequence of the run."
            ),
            "samples": agg.samples or [{"note": "no sample captured"}],
            "runs": {"primary": n_runs, "twins_other_hashseed": n_twins, "echoes_same_seed": n_echo,
                     "executed_total": total_exec, "by_role_and_status": dict(agg.n)},
            "runs_per_hour": int(total_exec / wall * 3600) if wall > 0 else 0,
            "seeds_per_hour": int(n_runs / wall * 3600) if wall > 0 else 0,
            "logical_steps": agg.steps,
            "simulated_time": "none: the system under test has no clock; progress is counted in logical steps (one public-API read/construct each)",
            "ops_by_kind": dict(agg.ops),
            "fault_kinds_fired": {
                "F1_failing_reads": agg.fired["F1"], "F2_drop_volatile_state": agg.fired["F2"],
                "F3_persistence_round_trip": agg.fired["F3"], "F4_poisoned_companion_failures": agg.fired["F4"],
                "F5_warning_raised_in_read": agg.fired["F5"],
                "F8_caller_edited_its_own_argument_between_renders": agg.fired["F8"],
                "F6_F7_read_under_hostile_host_state (little stack left / numpy errstate raise / injected KeyboardInterrupt after N library lines)": agg.fired["F6"],
            },
            "runs_in_which_fault_fired": dict(agg.fired_runs),
            "fault_configurations": dict(agg.fault_sets),
            "warning_modes": dict(agg.warn_modes),
            "topologies": dict(agg.topologies),
            "run_modes": dict(agg.modes),
            "reference_evaluations": agg.references,
            "invariants_checked": {
                "I1/I2": "repeat stability / agreement between live handles (implied by I3, used to localise)",
                "I3": "every READ equals the history-free reference",
                "I4": "every PROBE (brand-new object on the current, possibly edited, arguments) equals the reference",
                "I5": "twin run under another PYTHONHASHSEED yields an identical event log, reference side included",
                "I6": "reference under the dict / JSON-text / envelope forms of the responses is the same (sampled, 1 in 5 references)",
                "I7": "a reference evaluated alone in its own forked child equals the one evaluated in the batch (2 sampled per run + every mismatch)",
            },
            "argument_edits_observed": agg.edits,
            "probes": dict(agg.probes),
            "distinct_interleavings": len(agg.interleavings),
            "distinct_states_estimate": agg.states.estimate(),
            "distinct_states_measure": "linear-counting estimate over hashes of (digest of every shared argument object, per live handle: spec and set of paths read so far), sampled after every step",
            "runs_that_used_their_whole_step_budget": agg.truncated,
            "step_budget_note": "every run is given a step budget (mixed 16-80, sweep/deck 150-220, marathon 4000/12000) and the scheduler always spends it; nothing is cut short by a wall-clock cap unless harness_errors > 0",
            "slowest_run_wall_s": round(agg.max_run_wall, 2),
            "per_child_timeout_s": 120,
            "violating_runs": agg.violation_count,
            "harness_errors": sum(v for k, v in agg.n.items() if k.endswith("harness_error")),
            "components": {"real": ["cr.cube (working tree of %s)" % args.repo, "numpy", "scipy", "json"], "stub": []},
            "workers": [{k: h[k] for k in ("group", "hashseed", "python", "numpy", "scipy")} for h in hellos],
            "read_surface": hellos[0]["n_props"] if hellos else {},
            "uncalled_public_methods": hellos[0]["uncalled_methods"] if hellos else {},
            "report": lines,
            "exit_code": rc,
        },
        "assumptions": [
            "CPython, numpy and scipy are deterministic for identical inputs in identical order (checked by echo and twin runs)",
            "the canonical encoding in sim/digest.py distinguishes every observable difference (bit-exact, NaN payloads merged)",
            "the reference is the same library code run history-free: values that are wrong independently of history are invisible",
            "seeded sampling of histories, not enumeration: a clean batch is evidence, not proof",
        ],
    }
    os.makedirs(os.path.dirname(args.evidence), exist_ok=True)
    tmp = args.evidence + ".tmp"
    with open(tmp, "w") as f:
        json.dump(ev, f, indent=1)
    os.replace(tmp, args.evidence)


if __name__ == "__main__":
    try:
        code = main()
    except SystemExit:
        raise
    except BaseException:  # noqa: B902 - a crash of the harness is never a verdict
        import traceback

        traceback.print_exc()
        print("HARNESS-ERROR: the runner itself failed (see traceback on stderr)")
        code = 2
    sys.exit(code)
