#!/usr/bin/env python3
"""Print a replay file compactly."""
import json, sys
r = json.load(open(sys.argv[1]))
sc = r["scenario"]
print("class:", r.get("class"), "| found_by:", r.get("found_by"))
print("knobs:", {k: sc["knobs"][k] for k in ("warnings", "faults", "topology")})
for a, ad in sc["args"].items():
    print(" arg", a, json.dumps(ad)[:600])
for s, sp in sc["specs"].items():
    print(" spec", s, json.dumps(sp))
print(" clients", sc["clients"])
for i, op in enumerate(r["ops"]):
    print("  %2d %s" % (i, json.dumps(op)))
v = r["violation"]
print("violation:", v["invariant"], "step", v["step"], json.dumps(v.get("path")))
print("  observed:", v["observed"][1])
print("  expected:", v["expected"][1])
if r.get("features"):
    print("  edits:", r["features"].get("edits"))
