#!/venv/bin/python
"""Quietness check: a property-PRESERVING change (refactoring written by an independent
sub-agent) must not raise an alarm. Applies the patch to a scratch copy, confirms the test
suite is at baseline, runs the quick tier and a bounded thorough tier against the copy and
expects exit 0 from both; keeps patch, notes and the outcome under /verif/preserving/<id>/."""
import json
import os
import shutil
import subprocess
import sys
import tempfile

src, pid = sys.argv[1], sys.argv[2]
THOROUGH_RUNS = int(sys.argv[3]) if len(sys.argv) > 3 else 8000
REPO, PY, V = "/repo", "/venv/bin/python", "/verif"
dst = os.path.join(V, "preserving", pid)

d = tempfile.mkdtemp(prefix="c18-pres-")
try:
    subprocess.check_call(["rsync", "-a", "--exclude", ".git", "--exclude", "__pycache__", "--exclude", "docs", REPO + "/", d + "/"])
    os.makedirs(os.path.join(d, ".site"))
    open(os.path.join(d, ".site", "sitecustomize.py"), "w").write(
        "import os\nimport cr\ncr.__path__ = [os.path.join(%r, 'src', 'cr')]\n" % d)
    ap = subprocess.run(["git", "apply", "--unsafe-paths", "--directory", d, os.path.join(src, "patch.diff")],
                        cwd="/", capture_output=True, text=True)
    if ap.returncode:
        print("PATCH DOES NOT APPLY", ap.stderr)
        sys.exit(1)
    env = dict(os.environ, PYTHONPATH=os.path.join(d, ".site"), PYTHONDONTWRITEBYTECODE="1")
    t = subprocess.run([PY, "-m", "pytest", "-q", "-p", "no:cacheprovider", "-n", "8"], cwd=d, env=env,
                       capture_output=True, text=True, timeout=900)
    tail = t.stdout.strip().splitlines()[-1]
    print("test suite:", tail)
    out = {"id": pid, "test_suite_with_change": tail, "runs": {}}
    ok = tail.startswith("1 failed, 2163 passed")
    for tier, runs in (("quick", None), ("thorough", THOROUGH_RUNS)):
        cmd = [PY, os.path.join(V, "sim", "runner.py"), "--tier", tier, "--repo", d,
               "--evidence", os.path.join(tempfile.gettempdir(), "c18-pres-evidence.json"),
               "--out-prefix", "tmp-pres-%s-" % pid]
        if runs:
            cmd += ["--runs", str(runs)]
        p = subprocess.run(cmd, capture_output=True, text=True, timeout=7200)
        lines = [ln for ln in p.stdout.splitlines() if ln.startswith(("VIOLATION", "HARNESS", "NOTE", "KNOWN"))]
        out["runs"][tier if not runs else "%s_%d" % (tier, runs)] = {"exit": p.returncode, "report": lines[:6],
                                                                      "summary": p.stdout.strip().splitlines()[-1]}
        print(tier, "exit", p.returncode, lines[:3])
        ok = ok and p.returncode == 0
    out["quiet"] = ok
    os.makedirs(dst, exist_ok=True)
    for f in ("patch.diff", "notes.md"):
        if os.path.exists(os.path.join(src, f)):
            shutil.copy(os.path.join(src, f), os.path.join(dst, f))
    json.dump(out, open(os.path.join(dst, "meta.json"), "w"), indent=1)
    print("QUIET" if ok else "ALARM (look at it: false alarm in the machinery, or the change does break C18)")
finally:
    shutil.rmtree(d, ignore_errors=True)
    for f in os.listdir(os.path.join(V, "replays")):
        if f.startswith("tmp-pres-%s-" % pid):
            pass  # kept for inspection when there was an alarm
