#!/venv/bin/python
"""Snapshot the repository's response fixtures into /verif/corpus (inputs only).

Run once by hand (not part of any check): the corpus is committed so that editing
test fixtures cannot change what the checks run on. Writes corpus/<name>.json
(minified) and corpus/index.json (metadata used by the scenario generator).
"""
import json, os, sys, time, hashlib

REPO = sys.argv[1] if len(sys.argv) > 1 else "/repo"
sys.path.insert(0, os.path.join(REPO, "src"))
from cr.cube.cube import Cube  # noqa

FIX = os.path.join(REPO, "tests", "fixtures")
OUT = os.path.join(os.path.dirname(os.path.abspath(__file__)), "..", "corpus")
OUT = os.path.abspath(OUT)

index = {}
seen = {}
for root, _dirs, files in sorted(os.walk(FIX)):
    for fn in sorted(files):
        if not fn.endswith(".json"):
            continue
        p = os.path.join(root, fn)
        rel = os.path.relpath(p, FIX)
        try:
            with open(p) as f:
                d = json.load(f)
        except Exception as e:
            print("skip (unparsable)", rel, e)
            continue
        if not isinstance(d, dict):
            print("skip (not dict)", rel)
            continue
        inner = d.get("value", d)
        if not isinstance(inner, dict) or "result" not in inner or "dimensions" not in inner.get("result", {}):
            print("skip (no result)", rel)
            continue
        text = json.dumps(d, separators=(",", ":"), sort_keys=False)
        h = hashlib.sha1(text.encode()).hexdigest()
        if h in seen:
            print("skip (dup of %s)" % seen[h], rel)
            continue
        name = rel.replace(os.sep, "__")
        try:
            t0 = time.time()
            cube = Cube(json.loads(text))
            dts = [dt.name for dt in cube.dimension_types]
            all_dts = [dm.dimension_type.name for dm in cube._all_dimensions]
            nparts = len(cube.partitions)
            part_cls = type(cube.partitions[0]).__name__ if nparts else None
            meas = sorted(m.name for m in cube.available_measures)
            shapes = [dm.shape for dm in cube._all_dimensions]
            _ = cube.partitions[0].shape if nparts and part_cls != "_Nub" else None
            dt_s = time.time() - t0
            dims_meta = []
            raw_dims = cube._cube_response["result"]["dimensions"]
            for dm in cube.dimensions:
                shim = dm._element_id_shim
                tname = dm.dimension_type.name
                raw_idx = next((i for i, rd in enumerate(raw_dims) if rd is dm._unshimmed_dimension_dict), -1)
                els = []
                if tname in ("CA_SUBVAR", "MR_SUBVAR", "NUM_ARRAY"):
                    rids = list(shim._raw_element_ids)
                    als = list(shim._subvar_aliases)
                    sids = list(shim._subvar_ids) or [None] * len(rids)
                    for k, e in enumerate(dm.all_elements):
                        els.append({"id": rids[k], "alias": als[k], "subvar_id": sids[k], "missing": bool(e.missing),
                                    "derived": bool(e.derived)})
                else:
                    tdef = dm._unshimmed_dimension_dict["type"]
                    edefs = tdef["categories"] if tdef["class"] == "categorical" else tdef["elements"]
                    for ed in edefs:
                        v = ed.get("value")
                        els.append({"id": ed["id"], "missing": bool(ed.get("missing")),
                                    "value": v if isinstance(v, (str, int, float)) else None,
                                    "numeric_value": ed.get("numeric_value")})
                view = (dm._unshimmed_dimension_dict.get("references", {}).get("view") or {})
                vins = (view.get("transform") or {}).get("insertions", []) or []
                dims_meta.append({"type": tname, "raw_idx": raw_idx, "elements": els,
                                  "view_insertion_ids": [i.get("id") for i in vins if isinstance(i, dict)],
                                  "n_view_insertions": len(vins)})
        except Exception as e:
            print("skip (cube fails: %r)" % (e,), rel)
            continue
        seen[h] = name
        with open(os.path.join(OUT, name), "w") as f:
            f.write(text)
        index[name] = {
            "bytes": len(text),
            "envelope": "value" in d,
            "ndim": len(dts),
            "dimension_types": dts,
            "all_dimension_types": all_dts,
            "shapes": shapes,
            "n_partitions": nparts,
            "partition_class": part_cls,
            "measures": meas,
            "dims": dims_meta,
            "sha1": h,
        }
with open(os.path.join(OUT, "index.json"), "w") as f:
    json.dump(index, f, indent=0, sort_keys=True)
print(len(index), "corpus members")
