#!/venv/bin/python
"""Replay a file in-process (forked children) and print every event with the reference."""
import json, os, sys
os.environ.setdefault("OPENBLAS_NUM_THREADS", "1")
repo = os.environ.get("VERIF_REPO", "/repo")
sys.path.insert(0, os.path.join(repo, "src")); sys.path.insert(0, os.path.join(os.path.dirname(os.path.abspath(__file__)), ".."))
from sim import engine, surface
rec = json.load(open(sys.argv[1]))
surf = surface.build_surface()
res = engine.execute_replay(rec["scenario"], rec["ops"], surf)
print(res["status"], res.get("error", ""))
bad = {v["step"]: v for v in res.get("violations", [])}
for ev in res.get("events", []):
    mark = "!!" if ev["i"] in bad else "  "
    print(mark, ev["i"], json.dumps(ev["op"]), "=>", ev.get("s", "")[:110], ("CHG " + json.dumps(ev["chg"])[:300]) if ev.get("chg") else "")
    if ev["i"] in bad:
        print("       expected:", bad[ev["i"]]["expected"][1][:140])
for v in res.get("violations", []):
    if v["step"] < 0:
        print("I6", json.dumps(v["path"]), v["op"], "obs", v["observed"][1][:100], "exp", v["expected"][1][:100])
