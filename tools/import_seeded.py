#!/venv/bin/python
"""Import a sub-agent's seeded change into /verif/seeded/<id>/ after confirming it independently:
applies cleanly, test suite still at baseline, demo passes without and fails with the change."""
import json, os, shutil, subprocess, sys, tempfile

src, sid = sys.argv[1], sys.argv[2]          # e.g. /tmp/wt-m1/out/strand-popdiff-alias  S01-...
REPO = "/repo"
PY = "/venv/bin/python"
dst = os.path.join("/verif/seeded", sid)

def scratch():
    d = tempfile.mkdtemp(prefix="c18-seeded-")
    subprocess.check_call(["rsync", "-a", "--exclude", ".git", "--exclude", "__pycache__", "--exclude", "docs", REPO + "/", d + "/"])
    os.makedirs(os.path.join(d, ".site"))
    open(os.path.join(d, ".site", "sitecustomize.py"), "w").write("import os\nimport cr\ncr.__path__ = [os.path.join(%r, 'src', 'cr')]\n" % d)
    return d

def run(d, args, timeout=900):
    env = dict(os.environ, PYTHONPATH=os.path.join(d, ".site"), PYTHONDONTWRITEBYTECODE="1", CR_CUBE_WT=d)
    return subprocess.run([PY] + args, cwd=d, env=env, capture_output=True, text=True, timeout=timeout)

d = scratch()
try:
    rel = os.path.join("out", os.path.basename(src))
    os.makedirs(os.path.join(d, rel))
    for f in ("demo.py",):
        shutil.copy(os.path.join(src, f), os.path.join(d, rel, f))
    r0 = run(d, [os.path.join(rel, "demo.py")])
    ap = subprocess.run(["git", "apply", "--unsafe-paths", "--directory", d, os.path.join(src, "patch.diff")], cwd="/", capture_output=True, text=True)
    if ap.returncode:
        print("PATCH DOES NOT APPLY", ap.stderr); sys.exit(1)
    r1 = run(d, [os.path.join(rel, "demo.py")])
    t = run(d, ["-m", "pytest", "-q", "-p", "no:cacheprovider", "-n", "8"])
    tail = t.stdout.strip().splitlines()[-1]
    ok = r0.returncode == 0 and r1.returncode == 1 and tail.startswith("1 failed, 2163 passed")
    print("demo without:", r0.returncode, (r0.stdout.strip().splitlines() or [""])[-1][:120])
    print("demo with   :", r1.returncode, (r1.stdout.strip().splitlines() or [""])[-1][:160])
    print("test suite  :", tail)
    if not ok:
        print("NOT CONFIRMED"); sys.exit(1)
    os.makedirs(dst, exist_ok=True)
    for f in ("patch.diff", "demo.py", "notes.md"):
        if os.path.exists(os.path.join(src, f)):
            shutil.copy(os.path.join(src, f), os.path.join(dst, f))
    meta = {"id": sid, "property": "C18", "origin": "independent sub-agent (given only the property text and a scratch worktree)",
            "confirmed": {"patch_applies": True, "demo_without_change": "exit 0", "demo_with_change": "exit 1: " + (r1.stdout.strip().splitlines() or [""])[-1][:200],
                          "test_suite_with_change": tail},
            "needs": "see notes.md", "ran": ["tools/import_seeded.py (scratch copy under /tmp, removed)"]}
    json.dump(meta, open(os.path.join(dst, "meta.json"), "w"), indent=1)
    print("imported", dst)
finally:
    shutil.rmtree(d, ignore_errors=True)
