#!/usr/bin/env python3
"""Regenerate the table of DESIGN.md section 9 from selftest/RESULTS.json and seeded/*/meta.json."""
import json, os, re
V = os.path.dirname(os.path.dirname(os.path.abspath(__file__)))
res = json.load(open(os.path.join(V, "selftest", "RESULTS.json")))
INV = {"I3/I4": "I3/I4 history vs reference", "I5": "I5 twin (hash seed)", "I6": "I6 form independence", "I7": "I7 reference purity"}
rows = []
for r in res["results"]:
    name = r["mutant"]
    needs = ""
    mp = os.path.join(V, "seeded", name, "meta.json")
    if os.path.exists(mp):
        needs = json.load(open(mp)).get("needs", "")
    elif name.startswith("revert-"):
        kf = {"0a3817ba": "KF-6", "46f3deed+20fbc770": "KF-3 + KF-1", "46f3deed": "KF-3", "665192ea": "KF-2",
              "d501a1cb": "KF-4", "dcbf0e30": "KF-7", "f3012f04": "KF-5"}.get(name[7:], "")
        needs = "revert of the fix for %s (section 8)" % kf
    inv = (r.get("class") or "").split("|")[0]
    classes = sorted({(x.get("class") or "").split("|")[0] for x in r.get("replays", [])} - {""}) or [inv]
    rep = r.get("replay_on_mutant", {})
    rows.append("| %s | %s | %s | %s | %s | %s |" % (
        name, r.get("detected_by") or "**missed**", ", ".join(classes), r.get("minimised_ops", ""),
        "%s/%s" % (rep.get("reproducing", "1" if rep.get("exit") == 1 else "0"), rep.get("of", 1)),
        needs.replace("|", "/")[:230]))
hdr = ("| change | found by tier | invariant(s) that fired | ops in minimised replay | replays reproducing on the changed tree "
       "(never on the unchanged tree) | what it needs to manifest |\n|---|---|---|---|---|---|\n")
summ = res["summary"]
block = ("<!-- SEEDED-TABLE-BEGIN -->\n" + hdr + "\n".join(rows) +
         "\n\n%d changes, %d detected, %d of them by the quick tier; missed: %s. (`selftest/RESULTS.json`, seed %s; thorough budget used when quick is silent: 20 000 runs.)\n<!-- SEEDED-TABLE-END -->"
         % (summ["mutants"], summ["detected"], summ["by_quick"], summ["missed"] or "none", res["seed"]))
p = os.path.join(V, "DESIGN.md")
s = open(p).read()
if "SEEDED-TABLE-PLACEHOLDER" in s:
    s = s.replace("SEEDED-TABLE-PLACEHOLDER", block)
else:
    s = re.sub(r"<!-- SEEDED-TABLE-BEGIN -->.*<!-- SEEDED-TABLE-END -->", lambda m: block, s, flags=re.S)
open(p, "w").write(s)
print("table with %d rows written" % len(rows))
