#!/venv/bin/python
"""Every committed witness of a fixed finding must (a) NOT reproduce on the current tree and
(b) reproduce again on a scratch copy in which the corresponding fix is reverted."""
import json, os, subprocess, sys, tempfile, shutil
V = "/verif"
PY = "/venv/bin/python"
pairs = {
 "KF-1-reshim-stale-id-typeerror.json": "revert-46f3deed+20fbc770.diff",
 "KF-2-inflate-edits-shared-lead-response.json": "revert-665192ea.diff",
 "KF-3-transforms-dict-rewritten-to-first-cubes-aliases.json": "revert-46f3deed.diff",
 "KF-4-augment-edits-shared-filter-response.json": "revert-d501a1cb.diff",
 "KF-5-augment-summary-as-json-or-envelope.json": "revert-f3012f04.diff",
 "KF-6-smoothed-proportions-repeat-after-warning-as-error.json": "revert-0a3817ba.diff",
 "KF-7-numeric-measure-order-depends-on-hash-seed.json": "revert-dcbf0e30.diff",
 "KF-7b-numeric-array-labels-depend-on-hash-seed.json": "revert-dcbf0e30.diff",
}
def replay(repo, f):
    p = subprocess.run([PY, os.path.join(V, "sim", "runner.py"), "--replay", os.path.join(V, "findings", f), "--repo", repo],
                       capture_output=True, text=True, timeout=600)
    return p.returncode, (p.stdout.strip().splitlines() or [""])[-1][:110]
out = {}
bad = 0
for f, diff in pairs.items():
    rc0, l0 = replay("/repo", f)
    d = tempfile.mkdtemp(prefix="c18-wit-")
    try:
        subprocess.check_call(["rsync", "-a", "--exclude", ".git", "--exclude", "docs", "--exclude", "tests", "/repo/", d + "/"])
        ap = subprocess.run(["git", "apply", "--unsafe-paths", "--directory", d, os.path.join(V, "selftest", "mutants", diff)], cwd="/", capture_output=True, text=True)
        rc1, l1 = (replay(d, f) if ap.returncode == 0 else (99, "patch does not apply: " + ap.stderr[:80]))
    finally:
        shutil.rmtree(d, ignore_errors=True)
    ok = rc0 == 0 and rc1 == 1
    bad += 0 if ok else 1
    out[f] = {"current_tree_exit": rc0, "with_fix_reverted_exit": rc1, "with_fix_reverted": l1, "ok": ok}
    print(("ok  " if ok else "BAD ") + f, rc0, rc1, l1)
json.dump(out, open(os.path.join(V, "selftest", "WITNESSES.json"), "w"), indent=1)
sys.exit(1 if bad else 0)
